"""Auxiliary sanitizer monitor: the bundled MaxSAT solver (problog/bin/source/maxsatz/maxsatz2009.c, the only native code with source)
is rebuilt from the working tree with AddressSanitizer + UndefinedBehaviorSanitizer and put first on PATH, so every MaxSAT call of the
workload (C20 MPE, C23 k-best/explain) runs sanitized.  Reports are written to log files (halt_on_error=0), collected after the
workers finish and turned into violations keyed by (tool, kind, innermost maxsatz function)."""
import glob
import os
import re
import subprocess

from . import REPO

FLAGS = ["-g", "-O1", "-fno-omit-frame-pointer", "-fsanitize=address,undefined", "-fsanitize-recover=address,undefined"]


def prepare(scratch, env):
    src = os.path.join(os.environ.get("PBMON_REPO", REPO), "problog", "bin", "source", "maxsatz", "maxsatz2009.c")
    bindir = os.path.join(scratch, "sanbin")
    logdir = os.path.join(scratch, "san")
    os.makedirs(bindir, exist_ok=True)
    os.makedirs(logdir, exist_ok=True)
    ok = False
    try:
        r = subprocess.run(["clang"] + FLAGS + ["-w", "-o", os.path.join(bindir, "maxsatz"), src], capture_output=True, timeout=120)
        ok = r.returncode == 0 and os.path.exists(os.path.join(bindir, "maxsatz"))
    except Exception:  # noqa
        ok = False
    with open(os.path.join(logdir, "BUILD"), "w") as f:
        f.write("ok" if ok else "failed")
    if ok:
        env["PATH"] = bindir + os.pathsep + env.get("PATH", "")
        env["ASAN_OPTIONS"] = "detect_leaks=0:halt_on_error=0:log_path=%s" % os.path.join(logdir, "asan")
        env["UBSAN_OPTIONS"] = "halt_on_error=0:print_stacktrace=1:log_path=%s" % os.path.join(logdir, "ubsan")
        env["PBMON_SANITIZED_MAXSATZ"] = os.path.join(bindir, "maxsatz")
    return ok


ASAN_RE = re.compile(r"ERROR: AddressSanitizer: (\S+)")
UBSAN_RE = re.compile(r"^(\S+?):(\d+):(\d+): runtime error: (.*)$", re.M)
FRAME_RE = re.compile(r"#\d+ 0x[0-9a-f]+ in (\S+) ")


def collect(scratch, recs, counters):
    logdir = os.path.join(scratch, "san")
    try:
        built = open(os.path.join(logdir, "BUILD")).read() == "ok"
    except OSError:
        built = False
    counters["sanitizer:build_ok"] += 1 if built else 0
    counters["sanitizer:build_failed"] += 0 if built else 1
    n = 0
    seen = set()
    for path in sorted(glob.glob(os.path.join(logdir, "asan.*")) + glob.glob(os.path.join(logdir, "ubsan.*"))):
        try:
            text = open(path, errors="replace").read()
        except OSError:
            continue
        found = []
        for m in ASAN_RE.finditer(text):
            tail = text[m.end():m.end() + 1500]
            fm = FRAME_RE.search(tail)
            found.append(("asan", m.group(1), fm.group(1) if fm else "?"))
        for m in UBSAN_RE.finditer(text):
            kind = re.sub(r"[0-9]+", "N", m.group(4))[:60]
            found.append(("ubsan", kind, "%s:%s" % (os.path.basename(m.group(1)), m.group(2))))
        for tool, kind, where in found:
            n += 1
            sig = "sanitizer:%s:%s@%s" % (tool, kind.replace(" ", "_"), where)
            if sig in seen:
                continue
            seen.add(sig)
            recs.append(dict(status="viol", sig=sig, detail="sanitized maxsatz reported:\n" + text[:3000], nontrivial=True, feat=["sanitizer"],
                             n=0, sample=text[:3000]))
    counters["sanitizer:reports"] += n
    counters["sanitizer:report_files"] += len(glob.glob(os.path.join(logdir, "asan.*")) + glob.glob(os.path.join(logdir, "ubsan.*")))


def worker_probe(counters):
    """called in every worker: is the sanitized binary the one problog will execute?"""
    import shutil
    import problog  # noqa  (appends the bundled bin directory to PATH)
    want = os.environ.get("PBMON_SANITIZED_MAXSATZ")
    got = shutil.which("maxsatz")
    counters["sanitizer:workers_using_sanitized_maxsatz"] += 1 if (want and got == want) else 0
    counters["sanitizer:workers_using_bundled_maxsatz"] += 0 if (want and got == want) else 1
