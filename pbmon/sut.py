"""Drivers for the system under test (the real problog from /repo) and outcome comparison helpers."""
import re

from .core import frame_sig, short_exc

TOL = 1e-9


def outcome_of_exception(e):
    from problog.errors import ProbLogError, InconsistentEvidenceError, GroundingError
    name = type(e).__name__
    if isinstance(e, InconsistentEvidenceError):
        kind = "inconsistent"
    elif name == "NegativeCycle":
        kind = "negcycle"
    elif isinstance(e, ProbLogError):
        kind = "problog_error"
    else:
        kind = "crash"
    return dict(kind=kind, exc=name, sig=frame_sig(e), msg=short_exc(e, 200),
                grounding=isinstance(e, GroundingError))


def evaluate_text(text, backend=None, evaluate_kw=None, engine=None, factory=None, **create_kw):
    """Full pipeline through the public API.  Returns dict(kind='ok', result={str: float}) or the exception outcome."""
    from problog import get_evaluatable
    from problog.program import PrologString
    try:
        model = PrologString(text, factory=factory) if factory else PrologString(text)
        kc = get_evaluatable(backend)
        if engine is not None:
            create_kw["engine"] = engine
        formula = kc.create_from(model, **create_kw)
        res = formula.evaluate(**(evaluate_kw or {}))
        return dict(kind="ok", result={str(k): v for k, v in res.items()}, raw=res)
    except Exception as e:  # noqa
        return outcome_of_exception(e)


_VAR = re.compile(r"(?<![A-Za-z0-9_'])(_[A-Za-z0-9_]*|[A-Z][A-Za-z0-9_]*|_)(?![A-Za-z0-9_'(])")


def is_ground_name(name):
    """does the printed query name contain a variable (X1, _, A ...) outside quotes?"""
    s = re.sub(r"'[^']*'", "q", name)
    s = re.sub(r'"[^"]*"', "q", s)
    return not _VAR.search(s)


def compare_probs(got, ref_probs, tol=TOL, nonground_ok=True):
    """got: {name: float}; ref_probs: {name: Fraction|float}.  Returns None or (class, message)."""
    for name, v in got.items():
        if not isinstance(v, (int, float)):
            return ("non-numeric", "%s -> %r" % (name, v))
        if not is_ground_name(name):
            if abs(v) > tol:
                return ("nonground-nonzero", "non-ground instance %s reported with probability %r" % (name, v))
            continue
        exp = float(ref_probs.get(name, 0.0))
        if abs(v - exp) > tol + tol * abs(exp):
            return ("wrong-value", "%s: problog %.12g reference %.12g" % (name, v, exp))
    for name, p in ref_probs.items():
        if float(p) > tol and name not in got:
            return ("missing-instance", "%s has reference probability %.12g but is not reported" % (name, float(p)))
    return None


def same_outcome(a, b, tol=TOL, listcanon=False):
    """compare two SUT outcomes (dicts from evaluate_text).  Returns None or (class, message)."""
    if a["kind"] != b["kind"]:
        return ("outcome-kind", "%s vs %s" % (describe(a), describe(b)))
    if a["kind"] != "ok":
        if a["exc"] != b["exc"]:
            return ("error-class", "%s vs %s" % (describe(a), describe(b)))
        return None
    ra, rb = a["result"], b["result"]
    if listcanon:
        ra, rb = canon_lists(ra), canon_lists(rb)
    for k in sorted(set(ra) | set(rb)):
        va, vb = ra.get(k), rb.get(k)
        if va is None or vb is None:
            # an instance reported with probability 0 on one side only is still a difference in the instance set
            other = vb if va is None else va
            kind = "instance-set"
            if "[" in k:
                kind = "instance-set:list-content"
            elif isinstance(other, (int, float)) and abs(other) < 1e-12:
                kind = "instance-set:zero-probability-instance"
            return (kind, "%s: %r vs %r" % (k, va, vb))
        if abs(va - vb) > tol + tol * abs(vb):
            return ("value", "%s: %.12g vs %.12g" % (k, va, vb))
    return None


def _split_top(s):
    """split on top-level commas (respecting brackets, parentheses and quotes)"""
    out, depth, cur, q = [], 0, "", None
    for ch in s:
        if q:
            cur += ch
            if ch == q:
                q = None
            continue
        if ch in "'\"":
            q = ch
            cur += ch
        elif ch in "([":
            depth += 1
            cur += ch
        elif ch in ")]":
            depth -= 1
            cur += ch
        elif ch == "," and depth == 0:
            out.append(cur.strip())
            cur = ""
        else:
            cur += ch
    if cur.strip():
        out.append(cur.strip())
    return out


def _canon_name(name):
    """sort the elements of every list in a printed term (innermost first), drop blanks"""
    out = ""
    i = 0
    stack = []
    for ch in name:
        if ch == "[":
            stack.append(out)
            out = ""
        elif ch == "]" and stack:
            inner = out
            head, _, tail = inner.partition("|")
            items = sorted(_split_top(head))
            txt = ",".join(items) + (("|" + tail.strip()) if tail else "")
            out = stack.pop() + "[" + txt + "]"
        elif ch == " ":
            continue
        else:
            out += ch
    while stack:
        out = stack.pop() + "[" + out
    return out


def canon_lists(res):
    """sort the elements inside every list of a result name and add up coinciding names"""
    out = {}
    for k, v in res.items():
        k2 = _canon_name(k)
        out[k2] = out.get(k2, 0.0) + v
    return out


def describe(o):
    if o["kind"] == "ok":
        return "ok %s" % ({k: round(v, 9) if isinstance(v, float) else v for k, v in sorted(o["result"].items())},)
    return "%s(%s: %s)" % (o["kind"], o["sig"], o.get("msg", "")[:120])


# ------------------------------------------------------------------ deterministic goal batches
def run_goals(goals, prelude="", outs=1):
    """goals: list of goal source texts using output variables R1..R<outs>.
    Builds   r(I, R1..Rn) :- Goal_I.   for all goals, queries r(_,...) once with the real engine and returns a list
    (one per goal) of either a list of answer tuples (problog terms) or an exception outcome dict.
    If the batch raises, every goal is re-run alone so that the error is attributed to the right goal."""
    from problog.program import PrologString
    from problog.engine import DefaultEngine
    from problog.logic import Term
    heads = ",".join("R%d" % (k + 1) for k in range(outs))
    lines = [prelude] + ["r(%d,%s) :- %s." % (i, heads, g) for i, g in enumerate(goals)]
    try:
        eng = DefaultEngine()
        db = eng.prepare(PrologString("\n".join(lines)))
        res = eng.query(db, Term("r", *([None] * (outs + 1))))
        out = [[] for _ in goals]
        for r in res:
            out[int(r[0])].append(tuple(r[1:]))
        return out
    except Exception:  # noqa
        if len(goals) == 1:
            import sys
            return [outcome_of_exception(sys.exc_info()[1])]
    out = []
    for g in goals:
        out.extend(run_goals([g], prelude, outs))
    return out
