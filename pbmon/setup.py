"""setup_cmd: install offline contract libraries into /verif/.deps and self-test the framework imports."""
import os, sys
_here = os.path.dirname(os.path.dirname(os.path.abspath(__file__)))
sys.path.insert(0, _here)
from pbmon.core import ensure_deps

if __name__ == "__main__":
    okd = ensure_deps()
    print("deps installed:", okd)
    import problog
    print("problog from", problog.__file__)
    os.makedirs(os.path.join(_here, "evidence"), exist_ok=True)
    os.makedirs(os.path.join(_here, "out"), exist_ok=True)
    sys.exit(0 if okd else 1)
