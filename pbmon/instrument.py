"""Harness-side instrumentation of the real problog code (nothing is edited in /repo).

* reach counters: sys.monitoring PY_START restricted to watched functions of the anchor files
* transformation registry wrappers (I1): observe every (src object -> target object) instance
* seeded message-queue shuffling (I2)
"""
import os
import sys

from .core import COUNTERS

_TOOL = None
_watch = {}


def reach_install(watch):
    """watch: {file basename: iterable of function qualnames ('*' for all)}.  Counts function entries into
    COUNTERS['reach:<file>:<qualname>'] using sys.monitoring (3.12+); silently unavailable otherwise."""
    global _TOOL
    mon = getattr(sys, "monitoring", None)
    if mon is None:
        return False
    for k, v in watch.items():
        _watch.setdefault(k, set()).update(v)
    if _TOOL is not None:
        mon.restart_events()
        return True
    tool = mon.PROFILER_ID
    try:
        mon.use_tool_id(tool, "pbmon")
    except ValueError:
        return False
    _TOOL = tool

    def on_start(code, offset):
        fn = code.co_filename
        if "/problog/" in fn:
            base = os.path.basename(fn)
            w = _watch.get(base)
            if w is not None and (code.co_qualname in w or "*" in w):
                COUNTERS["reach:%s:%s" % (base[:-3], code.co_qualname)] += 1
                return None
        return mon.DISABLE
    mon.register_callback(tool, mon.events.PY_START, on_start)
    mon.set_events(tool, mon.events.PY_START)
    return True


# ------------------------------------------------------------------ I1 transformation registry
_orig_actions = {}


def wrap_transformations(observer):
    """observer(action_name, src_obj, result_obj, kwargs) is called after every registered transformation."""
    from problog.core import ProbLog
    import problog  # noqa: F401  (registers everything)
    for target, lst in list(ProbLog.transformations.items()):
        for i, (src, action) in enumerate(lst):
            if action is None or getattr(action, "_pbmon", False):
                continue

            def make(action):
                def wrapped(source, destination, **kw):
                    res = action(source, destination, **kw)
                    try:
                        observer(action.__name__, source, res, kw)
                    except _Passthrough:
                        raise
                    return res
                wrapped._pbmon = True
                wrapped._orig = action
                wrapped.__name__ = action.__name__
                return wrapped
            lst[i] = (src, make(action))


def unwrap_transformations():
    from problog.core import ProbLog
    for target, lst in list(ProbLog.transformations.items()):
        for i, (src, action) in enumerate(lst):
            if getattr(action, "_pbmon", False):
                lst[i] = (src, action._orig)


class _Passthrough(Exception):
    pass


class MonitorViolation(_Passthrough):
    """raised by an observer to abort the pipeline with a monitor verdict"""

    def __init__(self, sig, detail):
        Exception.__init__(self, detail)
        self.sig = sig
        self.detail = detail


# ------------------------------------------------------------------ I2 message queue shuffling
def make_shuffle_engine(rng, log=None, **engine_kw):
    """DefaultEngine whose MessageFIFO permutes every batch of sibling 'e' messages with the given rng."""
    from problog.engine import DefaultEngine
    from problog.engine_stack import MessageFIFO

    class ShuffleFIFO(MessageFIFO):
        def append(self, message):
            MessageFIFO.append(self, message)

        def __iadd__(self, messages):
            messages = list(messages)
            if len(messages) > 1 and all(m[0] == "e" for m in messages):
                before = [id(m) for m in messages]
                rng.shuffle(messages)
                COUNTERS["sched_batches"] += 1
                if [id(m) for m in messages] != before:
                    COUNTERS["sched_batches_permuted"] += 1
                    if log is not None:
                        log.append(len(messages))
            return MessageFIFO.__iadd__(self, messages)

    class ShuffleEngine(DefaultEngine):
        def init_message_stack(self):
            return ShuffleFIFO(self)

    return ShuffleEngine(**engine_kw)
