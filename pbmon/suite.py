"""Run the repository's own test suite with harness contracts switched on (see pytest_contracts.py) from a check's parent-side
collect() hook; a contract that fires inside a repository test becomes a violation record of that check."""
import json
import os
import subprocess
import sys

from . import VERIF_ROOT, REPO


def run_suite(which, scratch, recs, counters, timeout=1500):
    repo = os.environ.get("PBMON_REPO", REPO)
    out = os.path.join(scratch, "suite_%s.json" % which)
    env = dict(os.environ)
    env["PBMON_SUITE_OUT"] = out
    env["PBMON_SUITE_CONTRACTS"] = which
    env["PYTHONHASHSEED"] = "0"
    env["TMPDIR"] = scratch
    env["PYTHONPATH"] = os.pathsep.join([VERIF_ROOT, os.path.join(VERIF_ROOT, ".deps")] + ([env["PYTHONPATH"]] if env.get("PYTHONPATH") else []))
    try:
        r = subprocess.run([sys.executable, "-m", "pytest", "-q", "-p", "no:cacheprovider", "-p", "pbmon.pytest_contracts", "--timeout=900",
                            "-n", "8"], cwd=repo, env=env, capture_output=True, timeout=timeout)
        tail = (r.stdout or b"")[-300:].decode(errors="replace")
    except subprocess.TimeoutExpired:
        counters["suite:%s:timeout" % which] += 1
        return
    counters["suite:%s:runs" % which] += 1
    # with xdist every worker writes the same file name: the plugin result of the last worker only is kept, so the per-test
    # verdicts are taken from pytest's own summary and the broken contracts from the failure text
    text = (r.stdout or b"").decode(errors="replace")
    for marker in ("ContractBroken", "InvariantBroken"):
        if marker in text:
            i = text.index(marker)
            recs.append(dict(status="viol", sig="repo-test-suite:%s:%s" % (which, marker), nontrivial=True, feat=["repo-suite"], n=0,
                             detail="a harness contract fired inside the repository's own test suite:\n" + text[max(0, i - 2500):i + 500],
                             sample=text[max(0, i - 2500):i + 500]))
            break
    import re
    m = re.search(r"(\d+) passed", text)
    counters["suite:%s:tests_passed" % which] += int(m.group(1)) if m else 0
    m = re.search(r"(\d+) failed", text)
    counters["suite:%s:tests_failed" % which] += int(m.group(1)) if m else 0
    try:
        d = json.load(open(out))
        for k, v in d.get("counters", {}).items():
            counters["suite:%s:%s(one xdist worker)" % (which, k)] += v
    except (OSError, ValueError):
        pass
