"""Reference standard order of terms, exactly as property C15 states it:
Var < Number < Atom < Compound; numbers by value, float before an equal integer; atoms alphabetically (by their
unquoted text, character codes); compounds by arity, then name, then arguments left to right.
Strings are not ranked against the other classes (skip)."""


def cls(t):
    return {"v": 0, "i": 1, "f": 1, "a": 3, "s": 2, "c": 4}[t[0]]


def has_string(t):
    if t[0] == "s":
        return True
    if t[0] == "c":
        return any(has_string(a) for a in t[2])
    return False


def cmp(a, b):
    """a, b: normalised tuple terms (ground). returns -1/0/1"""
    ca, cb = cls(a), cls(b)
    if ca != cb:
        return (ca > cb) - (ca < cb)
    if ca == 1:
        va, vb = a[1], b[1]
        if va != vb:
            return (va > vb) - (va < vb)
        if a[0] == b[0]:
            return 0
        return -1 if a[0] == "f" else 1
    if ca in (2, 3):
        return (a[1] > b[1]) - (a[1] < b[1])
    if ca == 0:
        return (a[1] > b[1]) - (a[1] < b[1])
    if len(a[2]) != len(b[2]):
        return (len(a[2]) > len(b[2])) - (len(a[2]) < len(b[2]))
    if a[1] != b[1]:
        return (a[1] > b[1]) - (a[1] < b[1])
    for x, y in zip(a[2], b[2]):
        c = cmp(x, y)
        if c:
            return c
    return 0
