"""Reference possible-world semantics over the harness AST (see gen/prog.py).

Naive grounding over the constant domain (every clause variable instantiated; one independent binary choice
per ground instance of a probabilistic fact/rule, one (k+1)-valued choice per ground instance of all variables
of an AD clause), relevance closure from queries/evidence, enumeration of total choices, per world the
well-founded model by alternating fixpoint (= perfect model for stratified programs).  Exact Fractions.
"""
import itertools
from fractions import Fraction as F

from ..gen.prog import isvar


def aname(a):
    return a[0] if not a[1] else "%s(%s)" % (a[0], ",".join(map(str, a[1])))


def ground(prog):
    D = prog["consts"]
    grules = []  # (head, pos tuple, neg tuple, choice|None); choice = (group, option index >= 1)
    groups = {}  # group -> [P(none), P(opt1), ...]
    for ci, c in enumerate(prog["clauses"]):
        if c[0] == "fact":
            g = ("c", ci)
            groups[g] = [1 - F(c[1]), F(c[1])]
            grules.append(((c[2][0], tuple(c[2][1])), (), (), (g, 1)))
            continue
        heads = [[c[1], c[2]]] if c[0] == "rule" else c[1]
        body = c[3] if c[0] == "rule" else c[2]
        vs = []
        for l in [h for _, h in heads] + body:
            for a in l[1]:
                if isvar(a) and a not in vs:
                    vs.append(a)
        for vals in itertools.product(D, repeat=len(vs)):
            th = dict(zip(vs, vals))

            def sub(l):
                return (l[0], tuple(th.get(a, a) if isinstance(a, str) else a for a in l[1]))
            pos = tuple(sub(l) for l in body if not l[2])
            neg = tuple(sub(l) for l in body if l[2])
            if c[0] == "rule" and c[1] is None:
                grules.append((sub(c[2]), pos, neg, None))
            else:
                g = ("c", ci, vals)
                ps = [F(p) for p, _ in heads]
                groups[g] = [1 - sum(ps)] + ps
                for k, (p, h) in enumerate(heads):
                    grules.append((sub(h), pos, neg, (g, k + 1)))
    return grules, groups


def match(pat, atom):
    return pat[0] == atom[0] and len(pat[1]) == len(atom[1]) and all(
        isvar(x) or x == y for x, y in zip(pat[1], atom[1])) and _consistent(pat[1], atom[1])


def _consistent(pargs, aargs):
    b = {}
    for x, y in zip(pargs, aargs):
        if isvar(x) and x != "_":
            if b.setdefault(x, y) != y:
                return False
    return True


class Ref(object):
    __slots__ = ("status", "probs", "nworlds", "nchoices", "query_undefined", "any_undefined", "ground_negcycle",
                 "pe", "qatoms", "natoms", "nrules", "joint", "dead_body_in_cycle", "dead_body_any")

    def __init__(self):
        self.status = "ok"
        self.probs = {}
        self.nworlds = 0
        self.nchoices = 0
        self.query_undefined = False
        self.any_undefined = False
        self.ground_negcycle = False
        self.pe = None
        self.qatoms = []
        self.natoms = 0
        self.nrules = 0
        self.joint = None
        self.dead_body_in_cycle = False
        self.dead_body_any = False


def _lfp(rules, blocked_by, n_atoms):
    """least model of the reduct: rule i is usable iff none of its neg atoms is in blocked_by"""
    true = set()
    usable = [(h, pos) for (h, pos, neg) in rules if not any(a in blocked_by for a in neg)]
    changed = True
    while changed:
        changed = False
        rest = []
        for h, pos in usable:
            if h in true:
                continue
            if all(a in true for a in pos):
                true.add(h)
                changed = True
            else:
                rest.append((h, pos))
        usable = rest
    return true


def wfm(rules, n_atoms, has_neg):
    """well-founded model by alternating fixpoint: returns (true set, undefined set)"""
    if not has_neg:
        return _lfp(rules, (), n_atoms), set()
    K = set()
    U = _lfp(rules, K, n_atoms)
    while True:
        K2 = _lfp(rules, U, n_atoms)
        U2 = _lfp(rules, K2, n_atoms)
        if K2 == K and U2 == U:
            break
        K, U = K2, U2
    return K, U - K


def prepare(prog):
    grules, groups = ground(prog)
    poss = set()
    changed = True
    while changed:
        changed = False
        for h, pos, neg, ch in grules:
            if h not in poss and all(a in poss for a in pos):
                poss.add(h)
                changed = True
    PREP_ALL[0] = grules
    grules = [r for r in grules if all(a in poss for a in r[1])]
    return grules, groups, poss


PREP_ALL = [None]


def ground_negcycle(grules):
    """does the atom-level ground dependency graph have a cycle containing a negative edge?"""
    adj = {}
    negedges = []
    for h, pos, neg, ch in grules:
        for a in pos:
            adj.setdefault(h, set()).add(a)
        for a in neg:
            adj.setdefault(h, set()).add(a)
            negedges.append((h, a))
    # negative edge h -> a lies on a cycle iff a reaches h
    cache = {}

    def reach(a, b):
        key = (a, b)
        if key in cache:
            return cache[key]
        seen, st = set([a]), [a]
        found = a == b
        while st and not found:
            x = st.pop()
            for y in adj.get(x, ()):
                if y == b:
                    found = True
                    break
                if y not in seen:
                    seen.add(y)
                    st.append(y)
        cache[key] = found
        return found
    return any(reach(a, h) for h, a in negedges)


def reference(prog, max_worlds=1 << 12, extra_queries=(), want_joint=False, full_negcycle=True, cyc_preds=()):
    R = Ref()
    grules, groups, poss = prepare(prog)
    byhead = {}
    for r in grules:
        byhead.setdefault(r[0], []).append(r)
    qatoms = sorted({a for q in list(prog["queries"]) + list(extra_queries) for a in poss if match(q, a)})
    # ground queries that are not derivable at all still count as (probability 0) query atoms
    for q in list(prog["queries"]) + list(extra_queries):
        if not any(isvar(x) for x in q[1]):
            a = (q[0], tuple(q[1]))
            if a not in qatoms:
                qatoms.append(a)
    eatoms = [((e[0], tuple(e[1])), bool(v)) for e, v in prog["evidence"]]
    rel, st = set(), [a for a in qatoms] + [a for a, _ in eatoms]
    while st:
        a = st.pop()
        if a in rel:
            continue
        rel.add(a)
        for h, pos, neg, ch in byhead.get(a, ()):
            st.extend(pos)
            st.extend(neg)
    rrules = [r for r in grules if r[0] in rel]
    # 'full ground dependency graph of the program': every ground rule instance, also those whose body cannot hold
    R.ground_negcycle = ground_negcycle(PREP_ALL[0] if full_negcycle else rrules)
    rgroups = sorted({r[3][0] for r in rrules if r[3] is not None}, key=repr)
    nw = 1
    for g in rgroups:
        nw *= len(groups[g])
    R.nworlds, R.nchoices, R.qatoms = nw, len(rgroups), qatoms
    R.natoms, R.nrules = len(rel), len(rrules)
    if nw > max_worlds:
        R.status = "too_big"
        return R
    # integer encoding
    idx = {}

    def ai(a):
        if a not in idx:
            idx[a] = len(idx)
        return idx[a]
    det = [(ai(h), tuple(ai(a) for a in pos), tuple(ai(a) for a in neg)) for h, pos, neg, ch in rrules if ch is None]
    chr_ = {}
    for h, pos, neg, ch in rrules:
        if ch is not None:
            chr_.setdefault(ch, []).append((ai(h), tuple(ai(a) for a in pos), tuple(ai(a) for a in neg)))
    qi = [(a, ai(a)) for a in qatoms]
    ei = [(ai(a), v) for a, v in eatoms]
    has_neg = any(r[2] for r in rrules)
    n_atoms = len(idx)
    pe = F(0)
    pq = {a: F(0) for a in qatoms}
    joint = {} if want_joint else None
    watch = set(i for _, i in qi) | set(i for i, _ in ei)
    # ground rules with a negative literal whose head predicate is on a positive cycle: is the body ever true?
    # ... or, without a negative literal of its own, with a body atom whose definition involves negation (d1(X) :- f0(X), d0.  with
    # d0 :- \\+f0(2).): the body can be contradictory through the definitions
    negreach = set()
    changed = True
    while changed:
        changed = False
        for h, pos, neg, ch in rrules:
            if h not in negreach and (neg or any(a in negreach for a in pos)):
                negreach.add(h)
                changed = True
    sel = [bool(neg) or any(a in negreach for a in pos) for h, pos, neg, ch in rrules]
    cand = [(ai(h), tuple(ai(a) for a in pos), tuple(ai(a) for a in neg)) for (h, pos, neg, ch), k in zip(rrules, sel) if k]
    cand_cyc = [h[0] in cyc_preds for (h, pos, neg, ch), k in zip(rrules, sel) if k]
    alive = [False] * len(cand)
    for combo in itertools.product(*[range(len(groups[g])) for g in rgroups]):
        w = F(1)
        for g, o in zip(rgroups, combo):
            w *= groups[g][o]
        if w == 0 and all(alive):
            continue
        rules = list(det)
        for g, o in zip(rgroups, combo):
            if o:
                rules.extend(chr_.get((g, o), ()))
        true, undef = wfm(rules, n_atoms, has_neg)
        for k, (h, pos, neg) in enumerate(cand):
            if not alive[k] and all(a in true for a in pos) and not any(a in true for a in neg):
                alive[k] = True
        if w == 0:
            continue          # a world of probability 0 only counts for the question whether a body can ever hold
        if undef:
            R.any_undefined = True
            if undef & watch:
                R.query_undefined = True
        if all((i in true) == v for i, v in ei):
            pe += w
            for a, i in qi:
                if i in true:
                    pq[a] += w
            if want_joint:
                k = tuple(i in true for _, i in qi)
                joint[k] = joint.get(k, F(0)) + w
    R.pe = pe
    R.dead_body_any = not all(alive)
    R.dead_body_in_cycle = any(c and not a for c, a in zip(cand_cyc, alive))
    if pe == 0:
        R.status = "inconsistent"
        return R
    R.probs = {aname(a): p / pe for a, p in pq.items()}
    if want_joint:
        R.joint = {k: v / pe for k, v in joint.items()}
    return R
