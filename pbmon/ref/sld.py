"""Reference SLD interpreter (standard Prolog order) over tuple terms (see gen.terms.tup):
clause order, left-to-right conjunction, ;/2, \\+/1, findall/3 (order and duplicates), =/2, \\=/2, ==/2, \\==/2,
comparison and is/2 over integers.  Written from the standard; no code shared with problog."""
from .unify import unify, subst, Occurs


class Depth(Exception):
    pass


class Unsupported(Exception):
    pass


def rename(t, n):
    if t[0] == "v":
        return ("v", "%s#%s" % (t[1], n))
    if t[0] == "c":
        return ("c", t[1], tuple(rename(a, n) for a in t[2]))
    return t


class Prog(object):
    def __init__(self, clauses):
        """clauses: list of (head, body) tuple terms; body ('a','true') for facts"""
        self.clauses = clauses
        self.counter = 0
        self.steps = 0

    def fresh(self):
        self.counter += 1
        return self.counter


def evalnum(t, s):
    t = subst(t, s)
    if t[0] in ("i", "f"):
        return t[1]
    if t[0] == "c" and len(t[2]) == 2 and t[1] in ("+", "-", "*"):
        a, b = evalnum(t[2][0], s), evalnum(t[2][1], s)
        return {"+": a + b, "-": a - b, "*": a * b}[t[1]]
    raise Unsupported("arith %r" % (t,))


def solve(P, goal, s, depth=0):
    """generator of substitutions, in Prolog's order"""
    P.steps += 1
    if depth > 200 or P.steps > 200000:
        raise Depth()
    g = goal
    while g[0] == "v" and g[1] in s:
        g = s[g[1]]
    if g == ("a", "true"):
        yield s
        return
    if g == ("a", "fail") or g == ("a", "false"):
        return
    if g[0] == "c":
        f, args = g[1], g[2]
        n = len(args)
        if f == "," and n == 2:
            for s1 in solve(P, args[0], s, depth + 1):
                for s2 in solve(P, args[1], s1, depth + 1):
                    yield s2
            return
        if f == ";" and n == 2:
            for s1 in solve(P, args[0], s, depth + 1):
                yield s1
            for s1 in solve(P, args[1], s, depth + 1):
                yield s1
            return
        if f in ("\\+", "not") and n == 1:
            for _ in solve(P, args[0], s, depth + 1):
                return
            yield s
            return
        if f == "=" and n == 2:
            try:
                s1 = unify(args[0], args[1], s)
            except Occurs:
                raise Unsupported("occurs")
            if s1 is not None:
                yield s1
            return
        if f == "\\=" and n == 2:
            try:
                if unify(args[0], args[1], s) is None:
                    yield s
            except Occurs:
                raise Unsupported("occurs")
            return
        if f in ("==", "\\==") and n == 2:
            same = subst(args[0], s) == subst(args[1], s)
            if same == (f == "=="):
                yield s
            return
        if f in ("<", ">", "=<", ">=", "=:=", "=\\=") and n == 2:
            a, b = evalnum(args[0], s), evalnum(args[1], s)
            if {"<": a < b, ">": a > b, "=<": a <= b, ">=": a >= b, "=:=": a == b, "=\\=": a != b}[f]:
                yield s
            return
        if f == "is" and n == 2:
            v = evalnum(args[1], s)
            s1 = unify(args[0], ("i", v) if isinstance(v, int) else ("f", v), s)
            if s1 is not None:
                yield s1
            return
        if f == "findall" and n == 3:
            out = []
            for s1 in solve(P, args[1], s, depth + 1):
                # every solution is a fresh copy of the template: unbound variables are renamed apart
                out.append(rename(subst(args[0], s1), "c%d" % P.fresh()))
            lst = ("a", "[]")
            for e in reversed(out):
                lst = ("c", ".", (e, lst))
            # result variables of different solutions are distinct: rename apart
            try:
                s1 = unify(args[2], lst, s)
            except Occurs:
                raise Unsupported("occurs")
            if s1 is not None:
                yield s1
            return
    # user predicate
    key = (g[1], len(g[2]) if g[0] == "c" else 0)
    found = False
    for head, body in P.clauses:
        hk = (head[1], len(head[2]) if head[0] == "c" else 0)
        if hk != key:
            continue
        found = True
        k = P.fresh()
        h, b = rename(head, k), rename(body, k)
        try:
            s1 = unify(g, h, s)
        except Occurs:
            raise Unsupported("occurs")
        if s1 is None:
            continue
        for s2 in solve(P, b, s1, depth + 1):
            yield s2
    if not found:
        raise Unsupported("unknown predicate %s/%d" % key)


def answers(clauses, goal, limit=2000):
    """list of instantiated goals (in order, with duplicates)"""
    P = Prog(clauses)
    out = []
    for s in solve(P, goal, {}):
        out.append(subst(goal, s))
        if len(out) > limit:
            raise Depth()
    return out


LISTS_LIB = None


def lists_lib():
    """member/2 and append/3 with their textbook definitions"""
    V = lambda n: ("v", n)
    C = lambda f, *a: ("c", f, tuple(a))
    nil = ("a", "[]")
    cons = lambda h, t: ("c", ".", (h, t))
    true = ("a", "true")
    return [
        (C("member", V("X"), cons(V("X"), V("_T"))), true),
        (C("member", V("X"), cons(V("_H"), V("T"))), C("member", V("X"), V("T"))),
        (C("append", nil, V("L"), V("L")), true),
        (C("append", cons(V("H"), V("T")), V("L"), cons(V("H"), V("R"))), C("append", V("T"), V("L"), V("R"))),
    ]
