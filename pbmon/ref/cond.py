"""Three-valued evaluation of a harness program under a PARTIAL assignment of its probabilistic choices.

Used by the sampling monitor (C22): a sample fixes some ground choices (fact true/false, AD head chosen / heads rejected) and
leaves the others unsampled.  `Cond.evaluate(assign)` returns for every query / evidence atom True, False or None (= not
determined by the sampled choices), using the well-founded model in which every unsampled choice is an undefined input
(u :- \\+u): whatever that model decides holds in every total world that extends the assignment.
"""
from fractions import Fraction as F

from . import worlds
from ..gen.prog import isvar


class Cond(object):
    def __init__(self, prog):
        self.prog = prog
        grules, groups, poss = worlds.prepare(prog)
        self.groups = groups
        byhead = {}
        for r in grules:
            byhead.setdefault(r[0], []).append(r)
        qatoms = sorted({a for q in prog["queries"] for a in poss if worlds.match(q, a)})
        for q in prog["queries"]:
            if not any(isvar(x) for x in q[1]):
                a = (q[0], tuple(q[1]))
                if a not in qatoms:
                    qatoms.append(a)
        self.qatoms = qatoms
        self.eatoms = [((e[0], tuple(e[1])), bool(v)) for e, v in prog["evidence"]]
        rel, st = set(), list(qatoms) + [a for a, _ in self.eatoms]
        while st:
            a = st.pop()
            if a in rel:
                continue
            rel.add(a)
            for h, pos, neg, ch in byhead.get(a, ()):
                st.extend(pos)
                st.extend(neg)
        self.rrules = [r for r in grules if r[0] in rel]
        self.idx = {}
        for h, pos, neg, ch in self.rrules:
            for a in (h,) + pos + neg:
                self.idx.setdefault(a, len(self.idx))
        for a in list(qatoms) + [a for a, _ in self.eatoms]:
            self.idx.setdefault(a, len(self.idx))
        self.cache = {}

    def evaluate(self, assign):
        """assign: {group: ('chosen', k) | ('rejected', frozenset of k)}   (k >= 1 option index; facts: option 1)
        returns ({query atom name: True|False|None}, [evidence atom value True|False|None ...])"""
        key = frozenset(assign.items())
        if key in self.cache:
            return self.cache[key]
        idx = self.idx
        n = len(idx)
        rules = []
        extra = 0
        for h, pos, neg, ch in self.rrules:
            p = tuple(idx[a] for a in pos)
            ng = tuple(idx[a] for a in neg)
            if ch is not None:
                g, k = ch
                st = assign.get(g)
                if st is not None and st[0] == "chosen":
                    if st[1] != k:
                        continue
                elif st is not None and k in st[1]:
                    continue
                else:
                    # unsampled: undefined input
                    u = n + extra
                    extra += 1
                    rules.append((u, (), (u,)))
                    p = p + (u,)
            rules.append((idx[h], p, ng))
        true, undef = worlds.wfm(rules, n + extra, True)

        def val(a):
            i = idx[a]
            if i in undef:
                return None
            return i in true
        out = ({worlds.aname(a): val(a) for a in self.qatoms}, [val(a) for a, _ in self.eatoms])
        self.cache[key] = out
        return out

    def option_prob(self, g, k):
        return F(self.groups[g][k])
