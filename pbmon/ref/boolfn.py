"""Boolean functions as Python-int truth tables (bit a = value under assignment a of the n universe variables)."""


def var_table(k, n):
    """table of variable k (0-based) over n variables: bit a is set iff bit k of a is set"""
    block = (1 << (1 << k)) - 1          # 2^k ones
    period = 1 << (k + 1)
    unit = block << (1 << k)             # 2^k zeros then 2^k ones
    t = 0
    reps = (1 << n) // period
    # build by doubling
    t = unit
    width = period
    while width < (1 << n):
        t |= t << width
        width *= 2
    return t


def full(n):
    return (1 << (1 << n)) - 1


def sccs(nodes, children):
    """Tarjan (iterative). nodes: iterable of ids; children(id) -> iterable of ids. Returns list of SCCs in reverse
    topological order (children before parents)."""
    index = {}
    low = {}
    onstack = set()
    stack = []
    out = []
    counter = [0]
    for root in nodes:
        if root in index:
            continue
        work = [(root, iter(children(root)))]
        index[root] = low[root] = counter[0]
        counter[0] += 1
        stack.append(root)
        onstack.add(root)
        while work:
            v, it = work[-1]
            advanced = False
            for w in it:
                if w not in index:
                    index[w] = low[w] = counter[0]
                    counter[0] += 1
                    stack.append(w)
                    onstack.add(w)
                    work.append((w, iter(children(w))))
                    advanced = True
                    break
                elif w in onstack:
                    low[v] = min(low[v], index[w])
            if advanced:
                continue
            work.pop()
            if work:
                u = work[-1][0]
                low[u] = min(low[u], low[v])
            if low[v] == index[v]:
                comp = []
                while True:
                    w = stack.pop()
                    onstack.discard(w)
                    comp.append(w)
                    if w == v:
                        break
                out.append(comp)
    return out


class NegationInCycle(Exception):
    pass


def formula_tables(formula, universe):
    """Least-fixpoint truth tables of every node of a problog LogicFormula-like object (possibly cyclic).
    universe: list of atom identifiers; atoms not in the universe raise KeyError.
    Returns dict key -> table for keys 1..len(formula); use lit_table() for signed keys / TRUE / FALSE."""
    n = len(universe)
    pos = {ident: k for k, ident in enumerate(universe)}
    FULL = full(n)
    nodes = {}
    for key, node, ntype in formula:
        nodes[key] = (ntype, node)
    val = {}

    def kids(key):
        ntype, node = nodes[key]
        if ntype == "atom":
            return ()
        return [abs(c) for c in node.children if c is not None and c != 0]
    for comp in sccs(list(nodes), kids):
        cset = set(comp)
        for key in comp:
            ntype, node = nodes[key]
            if ntype == "atom":
                val[key] = var_table(pos[node.identifier], n)
            else:
                val[key] = 0
        if len(comp) == 1 and comp[0] not in kids(comp[0]):
            key = comp[0]
            ntype, node = nodes[key]
            if ntype != "atom":
                val[key] = _eval(ntype, node.children, val, FULL)
            continue
        for key in comp:
            ntype, node = nodes[key]
            if ntype != "atom" and any(c is not None and c < 0 and -c in cset for c in node.children):
                raise NegationInCycle()
        changed = True
        while changed:
            changed = False
            for key in comp:
                ntype, node = nodes[key]
                if ntype == "atom":
                    continue
                v = _eval(ntype, node.children, val, FULL)
                if v != val[key]:
                    val[key] = v
                    changed = True
    return val


def _eval(ntype, children, val, FULL):
    if ntype == "conj":
        v = FULL
        for c in children:
            v &= lit(c, val, FULL)
        return v
    v = 0
    for c in children:
        v |= lit(c, val, FULL)
    return v


def lit(c, val, FULL):
    """table of a signed key; 0 is TRUE, None is FALSE"""
    if c is None:
        return 0
    if c == 0:
        return FULL
    if c < 0:
        return FULL & ~val[-c]
    return val[c]
