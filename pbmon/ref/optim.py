"""Brute-force optimisation references built on the possible-world grounder: MPE, expected utility, MAP."""
import itertools
from fractions import Fraction as F

from . import worlds


def mpe(prog, max_worlds=1 << 14):
    """Most probable assignment to the choices that are RELEVANT to the evidence (goal-directed relevance, as the system
    grounds only what the evidence depends on): for every choice group the options whose ground rule is relevant stay separate,
    all other options (including 'none') are merged into one 'other' option with the summed probability.
    Returns (status, best probability Fraction | None, number of assignments, number of relevant atoms)."""
    grules, groups, poss = worlds.prepare(prog)
    byhead = {}
    for r in grules:
        byhead.setdefault(r[0], []).append(r)
    eatoms = [((e[0], tuple(e[1])), bool(v)) for e, v in prog["evidence"]]
    rel, st = set(), [a for a, _ in eatoms]
    while st:
        a = st.pop()
        if a in rel:
            continue
        rel.add(a)
        for h, pos, neg, ch in byhead.get(a, ()):
            st.extend(pos)
            st.extend(neg)
    rrules = [r for r in grules if r[0] in rel]
    relopts = {}
    for r in rrules:
        if r[3] is not None:
            relopts.setdefault(r[3][0], set()).add(r[3][1])
    gl = sorted(relopts, key=repr)
    optlists = []
    nw = 1
    for g in gl:
        opts = sorted(relopts[g])
        other = 1 - sum(groups[g][o] for o in opts)
        ol = [(o, groups[g][o]) for o in opts] + [(None, other)]
        optlists.append(ol)
        nw *= len(ol)
    if nw > max_worlds:
        return ("too_big", None, nw, len(rel))
    idx = {}

    def ai(a):
        if a not in idx:
            idx[a] = len(idx)
        return idx[a]
    det = [(ai(h), tuple(ai(a) for a in pos), tuple(ai(a) for a in neg)) for h, pos, neg, ch in rrules if ch is None]
    chr_ = {}
    for h, pos, neg, ch in rrules:
        if ch is not None:
            chr_.setdefault(ch, []).append((ai(h), tuple(ai(a) for a in pos), tuple(ai(a) for a in neg)))
    ei = [(ai(a), v) for a, v in eatoms]
    has_neg = any(r[2] for r in rrules)
    best = None
    consistent = {}
    ranges = [range(len(ol)) for ol in optlists]
    for pick in itertools.product(*ranges):
        combo = [ol[k] for ol, k in zip(optlists, pick)]
        w = F(1)
        for o, p in combo:
            w *= p
        rules = list(det)
        for g, (o, p) in zip(gl, combo):
            if o is not None:
                rules.extend(chr_.get((g, o), ()))
        true, undef = worlds.wfm(rules, len(idx), has_neg)
        okc = all((i in true) == v for i, v in ei)
        consistent[pick] = okc
        if okc and w > 0 and (best is None or w > best):
            best = w
    # choice groups that are syntactically reachable from the evidence but on which its truth never depends: the system may or may
    # not keep them in the ground program (a deterministically true alternative proof makes it drop them); each contributes the
    # factor max(option probability) to the optimum when it is kept
    LAST_INFO["irrelevant_factors"] = []
    LAST_INFO["irrelevant_groups"] = []
    for gi, ol in enumerate(optlists):
        dep = False
        for pick, okc in consistent.items():
            if pick[gi] != 0:
                continue
            for k in range(1, len(ol)):
                alt = pick[:gi] + (k,) + pick[gi + 1:]
                if consistent[alt] != okc:
                    dep = True
                    break
            if dep:
                break
        if not dep:
            LAST_INFO["irrelevant_factors"].append(max(p for _o, p in ol))
            LAST_INFO["irrelevant_groups"].append([p for _o, p in ol])
    return ("ok" if best is not None else "unsat", best, nw, len(gl))


LAST_INFO = {"irrelevant_factors": [], "irrelevant_groups": []}


def feasible_optima(best, groups, limit=200000):
    """optima the system may legitimately report when the choice groups in `groups` (option probability lists, last = merged rest) are
    irrelevant to the evidence: each such group may be absent from the ground program (factor 1) or present with any subset S of its
    options kept separate and the others merged (factor max(max S, 1 - sum S)).  Returns a sorted list of floats (deduplicated)."""
    import itertools
    base = float(best)
    for g in groups:
        base /= float(max(g))
    reach = {round(base, 15): base}
    for g in groups:
        ps = [float(x) for x in g[:-1]]
        fs = {1.0}
        for r in range(0, len(ps) + 1):
            for S in itertools.combinations(ps, r):
                f = max(list(S) + [1.0 - sum(S)])
                if f > 0:
                    fs.add(round(f, 12))
        nxt = {}
        for v in reach.values():
            for f in fs:
                w = v * f
                nxt[float("%.9e" % w)] = w
        reach = nxt
        if len(reach) > limit:
            return None
    return sorted(reach.values())
