"""Brute-force optimisation references built on the possible-world grounder: MPE, expected utility, MAP."""
import itertools
from fractions import Fraction as F

from . import worlds


def mpe(prog, max_worlds=1 << 14):
    """Most probable assignment to the choices that are RELEVANT to the evidence (goal-directed relevance, as the system
    grounds only what the evidence depends on): for every choice group the options whose ground rule is relevant stay separate,
    all other options (including 'none') are merged into one 'other' option with the summed probability.
    Returns (status, best probability Fraction | None, number of assignments, number of relevant atoms)."""
    grules, groups, poss = worlds.prepare(prog)
    byhead = {}
    for r in grules:
        byhead.setdefault(r[0], []).append(r)
    eatoms = [((e[0], tuple(e[1])), bool(v)) for e, v in prog["evidence"]]
    rel, st = set(), [a for a, _ in eatoms]
    while st:
        a = st.pop()
        if a in rel:
            continue
        rel.add(a)
        for h, pos, neg, ch in byhead.get(a, ()):
            st.extend(pos)
            st.extend(neg)
    rrules = [r for r in grules if r[0] in rel]
    relopts = {}
    for r in rrules:
        if r[3] is not None:
            relopts.setdefault(r[3][0], set()).add(r[3][1])
    gl = sorted(relopts, key=repr)
    optlists = []
    nw = 1
    for g in gl:
        opts = sorted(relopts[g])
        other = 1 - sum(groups[g][o] for o in opts)
        ol = [(o, groups[g][o]) for o in opts] + [(None, other)]
        optlists.append(ol)
        nw *= len(ol)
    if nw > max_worlds:
        return ("too_big", None, nw, len(rel))
    idx = {}

    def ai(a):
        if a not in idx:
            idx[a] = len(idx)
        return idx[a]
    det = [(ai(h), tuple(ai(a) for a in pos), tuple(ai(a) for a in neg)) for h, pos, neg, ch in rrules if ch is None]
    chr_ = {}
    for h, pos, neg, ch in rrules:
        if ch is not None:
            chr_.setdefault(ch, []).append((ai(h), tuple(ai(a) for a in pos), tuple(ai(a) for a in neg)))
    ei = [(ai(a), v) for a, v in eatoms]
    has_neg = any(r[2] for r in rrules)
    best = None
    consistent = {}
    ranges = [range(len(ol)) for ol in optlists]
    for pick in itertools.product(*ranges):
        combo = [ol[k] for ol, k in zip(optlists, pick)]
        w = F(1)
        for o, p in combo:
            w *= p
        rules = list(det)
        for g, (o, p) in zip(gl, combo):
            if o is not None:
                rules.extend(chr_.get((g, o), ()))
        true, undef = worlds.wfm(rules, len(idx), has_neg)
        okc = all((i in true) == v for i, v in ei)
        consistent[pick] = okc
        if okc and w > 0 and (best is None or w > best):
            best = w
    # Options (and whole groups) that are syntactically reachable from the evidence but never change whether it holds: the system may
    # keep such an option as a separate alternative, merge it into the "none of the relevant heads" alternative, or (a group without any
    # relevant option) leave the group out of the ground program.  Each choice gives a different - equally legitimate - optimum.
    nopt = [len(ol) for ol in optlists]
    relevant = [[False] * n for n in nopt]
    for pick, okc in consistent.items():
        for gi in range(len(optlists)):
            last = nopt[gi] - 1
            if pick[gi] != last and not relevant[gi][pick[gi]]:
                alt = pick[:gi] + (last,) + pick[gi + 1:]
                if consistent[alt] != okc:
                    relevant[gi][pick[gi]] = True
    patterns = set()
    for pick, okc in consistent.items():
        if okc:
            patterns.add(tuple(k if (k != nopt[gi] - 1 and relevant[gi][k]) else -1 for gi, k in enumerate(pick)))
    LAST_INFO["patterns"] = patterns
    LAST_INFO["optprobs"] = [[p for _o, p in ol] for ol in optlists]
    LAST_INFO["relevant"] = relevant
    LAST_INFO["irrelevant_groups"] = [gi for gi in range(len(optlists)) if not all(relevant[gi][:-1])]
    return ("ok" if best is not None else "unsat", best, nw, len(gl))


LAST_INFO = {"patterns": set(), "optprobs": [], "relevant": [], "irrelevant_groups": []}


def feasible_optima(limit=20000):
    """optima the system may legitimately report, one per way of treating the evidence-irrelevant options (see mpe()); None if too many"""
    import itertools
    pats, probs, rel = LAST_INFO["patterns"], LAST_INFO["optprobs"], LAST_INFO["relevant"]
    msets = []
    total = 1
    for gi, ps in enumerate(probs):
        none = float(ps[-1])
        irr = [float(p) for k, p in enumerate(ps[:-1]) if not rel[gi][k]]
        ms = set()
        for r in range(len(irr) + 1):
            for M in itertools.combinations(range(len(irr)), r):
                rest = [irr[k] for k in range(len(irr)) if k not in M]
                ms.add(round(max([none + sum(irr[k] for k in M)] + rest), 12))
        if not any(rel[gi][:-1]):
            ms.add(1.0)            # a group without any relevant option may be absent altogether
        msets.append(sorted(ms))
        total *= len(ms)
        if total > limit:
            return None
    out = set()
    for mvec in itertools.product(*msets):
        best = 0.0
        for a in pats:
            w = 1.0
            for gi, k in enumerate(a):
                w *= float(probs[gi][k]) if k >= 0 else mvec[gi]
                if w <= best:
                    break
            if w > best:
                best = w
        out.add(float("%.12e" % best))
    return sorted(out)
