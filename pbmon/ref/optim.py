"""Brute-force optimisation references built on the possible-world grounder: MPE, expected utility, MAP."""
import itertools
from fractions import Fraction as F

from . import worlds


def mpe(prog, max_worlds=1 << 14):
    """Most probable assignment to the choices that are RELEVANT to the evidence (goal-directed relevance, as the system
    grounds only what the evidence depends on): for every choice group the options whose ground rule is relevant stay separate,
    all other options (including 'none') are merged into one 'other' option with the summed probability.
    Returns (status, best probability Fraction | None, number of assignments, number of relevant atoms)."""
    grules, groups, poss = worlds.prepare(prog)
    byhead = {}
    for r in grules:
        byhead.setdefault(r[0], []).append(r)
    eatoms = [((e[0], tuple(e[1])), bool(v)) for e, v in prog["evidence"]]
    rel, st = set(), [a for a, _ in eatoms]
    while st:
        a = st.pop()
        if a in rel:
            continue
        rel.add(a)
        for h, pos, neg, ch in byhead.get(a, ()):
            st.extend(pos)
            st.extend(neg)
    rrules = [r for r in grules if r[0] in rel]
    relopts = {}
    for r in rrules:
        if r[3] is not None:
            relopts.setdefault(r[3][0], set()).add(r[3][1])
    gl = sorted(relopts, key=repr)
    optlists = []
    nw = 1
    for g in gl:
        opts = sorted(relopts[g])
        other = 1 - sum(groups[g][o] for o in opts)
        ol = [(o, groups[g][o]) for o in opts] + [(None, other)]
        optlists.append(ol)
        nw *= len(ol)
    if nw > max_worlds:
        return ("too_big", None, nw, len(rel))
    idx = {}

    def ai(a):
        if a not in idx:
            idx[a] = len(idx)
        return idx[a]
    det = [(ai(h), tuple(ai(a) for a in pos), tuple(ai(a) for a in neg)) for h, pos, neg, ch in rrules if ch is None]
    chr_ = {}
    for h, pos, neg, ch in rrules:
        if ch is not None:
            chr_.setdefault(ch, []).append((ai(h), tuple(ai(a) for a in pos), tuple(ai(a) for a in neg)))
    ei = [(ai(a), v) for a, v in eatoms]
    has_neg = any(r[2] for r in rrules)
    best = None
    for combo in itertools.product(*optlists):
        w = F(1)
        for o, p in combo:
            w *= p
        if w == 0 or (best is not None and w <= best):
            continue
        rules = list(det)
        for g, (o, p) in zip(gl, combo):
            if o is not None:
                rules.extend(chr_.get((g, o), ()))
        true, undef = worlds.wfm(rules, len(idx), has_neg)
        if all((i in true) == v for i, v in ei):
            best = w
    return ("ok" if best is not None else "unsat", best, nw, len(gl))
