"""Reference Robinson unification with occurs check on normalised tuple terms (gen.terms.tup)."""


class Occurs(Exception):
    def __init__(self, direct=True):
        Exception.__init__(self)
        self.direct = direct


def walk(t, s):
    while t[0] == "v" and t[1] in s:
        t = s[t[1]]
    return t


def occurs(v, t, s):
    t = walk(t, s)
    if t[0] == "v":
        return t[1] == v
    if t[0] == "c":
        return any(occurs(v, a, s) for a in t[2])
    return False


def unify(a, b, s, oc=True):
    """returns substitution dict, None (not unifiable); raises Occurs when only unifiable without occurs check"""
    a, b = walk(a, s), walk(b, s)
    if a[0] == "v" and b[0] == "v" and a[1] == b[1]:
        return s
    if a[0] == "v":
        if occurs(a[1], b, s):
            # direct: the variable occurs syntactically in the other term; indirect: only through earlier bindings
            raise Occurs(direct=occurs(a[1], b, {}))
        s = dict(s)
        s[a[1]] = b
        return s
    if b[0] == "v":
        return unify(b, a, s, oc)
    if a[0] != "c" or b[0] != "c":
        return s if same_constant(a, b) else None
    if a[1] != b[1] or len(a[2]) != len(b[2]):
        return None
    for x, y in zip(a[2], b[2]):
        s = unify(x, y, s, oc)
        if s is None:
            return None
    return s


def same_constant(a, b):
    # 1 and 1.0 do not unify; atoms by name; strings by text
    return a[0] == b[0] and a[1] == b[1] and type(a[1]) is type(b[1])


def classify(a, b):
    """'unif' (with mgu), 'no', or 'occ' (would need a cyclic binding).  A pair is 'no' if some subterm pair
    clashes regardless of the order in which an implementation discovers the clash and the occurs violation:
    for soundness of the oracle, 'occ' is only returned when unification without occurs check succeeds."""
    try:
        s = unify(a, b, {})
        return ("unif", s) if s is not None else ("no", None)
    except Occurs as e:
        # decide whether a clash exists independent of the cyclic binding: unify without occurs check
        if _unify_noc(a, b) is None:
            return ("no_or_occ", None)
        return ("occ" if e.direct else "occ_indirect", None)


def chained(s):
    """is the (triangular) mgu non-idempotent, i.e. does some binding's term mention another bound variable?"""
    def vars_of(t, acc):
        if t[0] == "v":
            acc.add(t[1])
        elif t[0] == "c":
            for x in t[2]:
                vars_of(x, acc)
        return acc
    return any(vars_of(t, set()) & set(s) for t in s.values())


def shares_vars(a, b):
    def vars_of(t, acc):
        if t[0] == "v":
            acc.append(t[1])
        elif t[0] == "c":
            for x in t[2]:
                vars_of(x, acc)
        return acc
    va, vb = vars_of(a, []), vars_of(b, [])
    return bool(set(va) & set(vb)) or len(va) != len(set(va)) or len(vb) != len(set(vb))


def _unify_noc(a, b):
    """unification without occurs check, with a visited set to terminate on cyclic bindings"""
    s = {}
    seen = set()

    def go(x, y):
        x, y = walk(x, s), walk(y, s)
        if x[0] == "v" and y[0] == "v" and x[1] == y[1]:
            return True
        if x[0] == "v":
            s[x[1]] = y
            return True
        if y[0] == "v":
            s[y[1]] = x
            return True
        if x[0] != "c" or y[0] != "c":
            return same_constant(x, y)
        if x[1] != y[1] or len(x[2]) != len(y[2]):
            return False
        key = (id(x), id(y))
        if key in seen:
            return True
        seen.add(key)
        if len(seen) > 2000:
            return True
        return all(go(p, q) for p, q in zip(x[2], y[2]))
    return s if go(a, b) else None


def subst(t, s):
    t = walk(t, s)
    if t[0] == "c":
        return ("c", t[1], tuple(subst(a, s) for a in t[2]))
    return t


def head_var_meets_bound_call_var(head, call):
    """Input-class predicate of a known defect of clause-head unification: scanning head and call left to right,
    a head variable is paired with a call variable that an earlier argument already bound to a non-ground head term."""
    bound = {}
    flag = [False]

    def ground(t):
        if t[0] == "v":
            return False
        if t[0] == "c":
            return all(ground(x) for x in t[2])
        return True

    def go(h, c):
        if c[0] == "v":
            if c[1] in bound:
                if h[0] == "v" and not ground(bound[c[1]]):
                    flag[0] = True
                # second known class: the call variable was first aliased to a head variable and is bound to a
                # non-variable head term later (other occurrences of that head variable miss the binding)
                if h[0] != "v" and bound[c[1]][0] == "v":
                    flag[0] = True
            else:
                bound[c[1]] = h
            return
        if h[0] == "v":
            return
        if h[0] == "c" and c[0] == "c" and h[1] == c[1] and len(h[2]) == len(c[2]):
            for x, y in zip(h[2], c[2]):
                go(x, y)
    go(head, call)
    return flag[0]


def repeated_vars_both(head, call):
    """Input class of the known clause-head unification defects: both the head and the call repeat a variable
    (sharing must flow through head-local variables and back to the caller)."""
    def occ(t, acc):
        if t[0] == "v":
            acc.append(t[1])
        elif t[0] == "c":
            for x in t[2]:
                occ(x, acc)
        return acc
    vh, vc = occ(head, []), occ(call, [])
    return len(vh) != len(set(vh)) and len(vc) != len(set(vc))
