"""Reference arithmetic restricted to the cases on which ISO, SWI-Prolog and YAP agree (no Prolog binary exists in the
sandbox: the table is written from the standards; contested cases return SKIP instead of being guessed).

eval_ref(op, args) -> ("val", value, strict_type) | ("err",) | ("skip", why)
strict_type False means: compare numerically only (result type contested between systems)."""
import math

SKIP = ("skip",)


def isint(v):
    return isinstance(v, int) and not isinstance(v, bool)


def trunc_div(a, b):
    q = abs(a) // abs(b)
    return q if (a >= 0) == (b >= 0) else -q


def eval_ref(op, args):
    try:
        return _eval(op, args)
    except ZeroDivisionError:
        return ("err",)
    except OverflowError:
        return ("err",)
    except ValueError:
        return ("err",)


def _eval(op, a):
    n = len(a)
    allint = all(isint(x) for x in a)
    if n == 2:
        x, y = a
        if op in ("+", "-", "*"):
            v = {"+": x + y, "-": x - y, "*": x * y}[op]
            return ("val", v if allint else float(v), True)
        if op == "/":
            if y == 0:
                return ("err",)
            return ("val", x / y, False)          # int/int exactness differs (ISO/YAP vs SWI): value only
        if op in ("//", "mod", "div", "rem", "/\\", "\\/", "xor", "#", "><", "<<", ">>"):
            if not allint:
                return ("err",)                    # integer-only functions: type error everywhere
            if op in ("//", "mod", "div", "rem") and y == 0:
                return ("err",)
            if op == "//":
                return ("val", trunc_div(x, y), True)
            if op == "mod":
                return ("val", x % y, True)        # sign of the divisor
            if op == "div":
                return ("val", x // y, True)       # flooring
            if op == "rem":
                return ("skip", "documented deviation: rem behaves like mod")
            if op == "/\\":
                return ("val", x & y, True)
            if op == "\\/":
                return ("val", x | y, True)
            if op in ("xor", "#", "><"):
                return ("val", x ^ y, True)
            if y < 0 or y > 64:
                return ("skip", "shift by negative/huge amount")
            return ("val", (x << y) if op == "<<" else (x >> y), True)
        if op in ("min", "max"):
            v = min(x, y) if op == "min" else max(x, y)
            if x == y and type(x) is not type(y):
                return ("skip", "min/max of equal int and float")
            return ("val", v, type(x) is type(y))
        if op in ("**", "^"):
            if allint:
                if y < 0:
                    return ("skip", "negative integer exponent")
                if op == "^":
                    return ("val", x ** y, True)
                return ("val", x ** y, False)       # ** on ints: int (SWI) vs float (ISO)
            if op == "^":
                return ("skip", "^ with floats")
            if x == 0 and y < 0:
                return ("err",)
            if x < 0 and not float(y).is_integer():
                return ("err",)
            return ("val", float(x) ** float(y), True)
        if op in ("atan2", "atan"):
            if x == 0 and y == 0:
                return ("skip", "atan2(0,0)")
            return ("val", math.atan2(x, y), True)
        if op in ("<", "=<", ">", ">=", "=:=", "=\\="):
            return ("val", {"<": x < y, "=<": x <= y, ">": x > y, ">=": x >= y, "=:=": x == y, "=\\=": x != y}[op], True)
        return SKIP
    if n == 1:
        x = a[0]
        if op == "+":
            return ("val", x, True)
        if op == "-":
            return ("val", -x, True)
        if op == "\\":
            return ("val", ~x, True) if isint(x) else ("err",)
        if op == "abs":
            return ("val", abs(x), True)
        if op == "sign":
            s = (x > 0) - (x < 0)
            return ("val", s if isint(x) else float(s), True)
        if op == "float":
            return ("val", float(x), True)
        if op == "integer":
            if isint(x) or float(x).is_integer():
                return ("val", int(x), True)
            return ("skip", "integer/1 of a fractional float: rounds in SWI, truncates in YAP")
        if op in ("truncate", "ceiling", "floor", "round"):
            if isint(x):
                return ("val", x, True)
            if op == "truncate":
                return ("val", int(math.trunc(x)), True)
            if op == "ceiling":
                return ("val", int(math.ceil(x)), True)
            if op == "floor":
                return ("val", int(math.floor(x)), True)
            if x < 0 and abs(x - math.trunc(x)) == 0.5:
                return ("skip", "round of a negative tie (ISO floor(x+1/2) vs SWI away from zero)")
            return ("val", int(math.floor(x + 0.5)) if x >= 0 else -int(math.floor(-x + 0.5)), True)
        if op == "float_integer_part":
            return ("val", float(math.trunc(x)), True)
        if op == "float_fractional_part":
            return ("val", x - math.trunc(x), not isint(x))
        if op in ("sqrt", "log", "log10", "exp", "sin", "cos", "tan", "asin", "acos", "atan", "sinh", "cosh", "tanh", "asinh", "acosh",
                  "atanh", "lgamma", "erf", "erfc"):
            if op in ("log", "log10") and x <= 0:
                return ("err",)
            if op == "sqrt" and x < 0:
                return ("err",)
            if op in ("asin", "acos") and abs(x) > 1:
                return ("err",)
            if op == "acosh" and x < 1:
                return ("err",)
            if op == "atanh" and abs(x) >= 1:
                return ("err",)
            if op == "lgamma" and x <= 0:
                return ("skip", "lgamma at non-positive")
            return ("val", getattr(math, op)(x), True)
        return SKIP
    if n == 0:
        if op == "pi":
            return ("val", math.pi, True)
        if op == "e":
            return ("val", math.e, True)
        if op == "inf":
            return ("val", float("inf"), True)
        if op == "epsilon":
            return ("val", 2.220446049250313e-16, True)
        return SKIP
    return SKIP
