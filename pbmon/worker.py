"""Worker entry point (separate module so that pbmon.core is imported once, not as __main__)."""
import sys
from pbmon.core import worker_main

if __name__ == "__main__":
    worker_main(sys.argv[1:])
