"""Common verdict logic: compare a SUT outcome with the possible-world reference."""
from .sut import compare_probs, describe, TOL


def input_class(F, propagate=False):
    """syntactic/semantic input class used to key known findings.  propagate=True: evidence propagation is active
    (CLI default, propagate_evidence option), which injects constants for evidence-determined nodes."""
    cls = []
    if F.get("contra_cyc") or (propagate and F.get("ev_reaches_cycle")):
        cls.append("contra_rec")
    if F.get("neg_cyclic_in_cycle"):
        cls.append("neg_cyclic_in_cycle")
    if cls:
        return "+".join(cls)
    if F.get("contra_any"):
        return "contra"          # a deterministically FALSE body outside any cycle
    return "clean"


def judge(o, R, F, tol=TOL, allow_negcycle=False, propagate=False):
    """o: SUT outcome, R: worlds.Ref, F: feature dict.  Returns None (agrees) or (signature, detail)."""
    cls = input_class(F, propagate)
    if o["kind"] == "ok":
        if R.status == "inconsistent":
            return ("answered-despite-inconsistent-evidence" + ("" if cls in ("clean", "contra") else "|" + cls),
                    "reference P(evidence)=0 but problog answered %s" % describe(o))
        d = compare_probs(o["result"], R.probs, tol)
        if d is not None:
            return (d[0] if cls in ("clean", "contra") else "%s|%s" % (d[0], cls), d[1])
        return None
    if o["kind"] == "inconsistent":
        if R.status == "inconsistent":
            return None
        return ("spurious-inconsistent-evidence", "reference P(evidence)=%s > 0 but problog raised %s" % (float(R.pe), describe(o)))
    if o["kind"] == "negcycle" and allow_negcycle:
        return None
    return ("%s|%s" % (o["sig"], cls), "problog raised %s on a program of class %s (reference: %s)" % (
        describe(o), cls, R.status))
