"""Common verdict logic: compare a SUT outcome with the possible-world reference."""
from .sut import compare_probs, describe, TOL


def input_class(F):
    if F.get("clean"):
        return "clean"
    cls = []
    if F.get("contra_cyc"):
        cls.append("contra_rec")
    if F.get("neg_cyclic_in_cycle"):
        cls.append("neg_cyclic_in_cycle")
    return "+".join(cls) or "clean"


def judge(o, R, F, tol=TOL, allow_negcycle=False):
    """o: SUT outcome, R: worlds.Ref, F: feature dict.  Returns None (agrees) or (signature, detail)."""
    cls = input_class(F)
    if o["kind"] == "ok":
        if R.status == "inconsistent":
            return ("answered-despite-inconsistent-evidence", "reference P(evidence)=0 but problog answered %s" % describe(o))
        d = compare_probs(o["result"], R.probs, tol)
        if d is not None:
            return (d[0] if cls == "clean" else "%s|%s" % (d[0], cls), d[1])
        return None
    if o["kind"] == "inconsistent":
        if R.status == "inconsistent":
            return None
        return ("spurious-inconsistent-evidence", "reference P(evidence)=%s > 0 but problog raised %s" % (float(R.pe), describe(o)))
    if o["kind"] == "negcycle" and allow_negcycle:
        return None
    return ("%s|%s" % (o["sig"], cls), "problog raised %s on a program of class %s (reference: %s)" % (
        describe(o), cls, R.status))
