"""pytest plugin: run the repository's OWN test suite with the harness contracts switched on (icontract post-conditions on the
semiring operations of C12, class invariants on OrderedSet / UHeap / BitVector of C34).  A contract that fires inside a repository
test is recorded in the JSON file named by PBMON_SUITE_OUT together with the number of contract evaluations that were observed."""
import json
import os

from pbmon.core import COUNTERS
from pbmon.checks import c12, c34

_broken = []
_tests = {"n": 0, "failed": 0}


def pytest_configure(config):
    which = os.environ.get("PBMON_SUITE_CONTRACTS", "c12,c34").split(",")
    if "c12" in which:
        c12.install_contracts()
    if "c34" in which:
        c34.setup_worker("quick")


def pytest_runtest_logreport(report):
    if report.when == "call":
        _tests["n"] += 1
        if report.failed:
            _tests["failed"] += 1
            text = str(report.longrepr)
            if "ContractBroken" in text or "InvariantBroken" in text:
                _broken.append(dict(test=report.nodeid, text=text[-3000:]))


def pytest_sessionfinish(session, exitstatus):
    out = os.environ.get("PBMON_SUITE_OUT")
    if out:
        with open(out, "w") as f:
            json.dump(dict(tests=_tests, broken=_broken, counters={k: v for k, v in COUNTERS.items()}), f)
