"""CLI: python -m pbmon.check <ID> [--tier quick|thorough] [--seed N] [--replay path] [--n N]"""
import argparse
import os
import sys

# make the module runnable from a bare checkout: put /verif and /verif/.deps on sys.path
_here = os.path.dirname(os.path.dirname(os.path.abspath(__file__)))
for p in (_here, os.path.join(_here, ".deps")):
    if p not in sys.path:
        sys.path.insert(0, p)

from pbmon.core import check_main  # noqa: E402


def main():
    ap = argparse.ArgumentParser()
    ap.add_argument("id")
    ap.add_argument("--tier", default=None)
    ap.add_argument("--seed", default=None)
    ap.add_argument("--replay", default=None)
    ap.add_argument("--n", type=int, default=None)
    ap.add_argument("--shards", type=int, default=None)
    a = ap.parse_args()
    sys.exit(check_main(a.id, a.tier, a.seed, a.replay, a.n, a.shards))


if __name__ == "__main__":
    main()
