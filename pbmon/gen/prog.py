"""G_prob / G_negcycle: seeded generator of ProbLog programs as a harness-owned JSON AST.

    prog = {consts:[...], clauses:[clause...], queries:[lit...], evidence:[[lit, bool]...]}
    clause = ["fact", p, lit] | ["rule", p|None, head, [body lits]] | ["ad", [[p, lit]...], [body lits]]
    lit    = [pred, [args...], neg]      arg = int constant | "X" variable (uppercase) | "_" (queries only)

The AST is printed to ProbLog text for the system under test and consumed directly by the reference
models, so the oracle shares no parser / database / engine code with ProbLog.
"""
import itertools

PAL = ["0.1", "0.3", "0.5", "0.7", "0.9", "0.2", "0.8", "0.4", "0.6"]
AD_PAL = [("0.3", "0.4"), ("0.5", "0.5"), ("0.2", "0.1"), ("0.6", "0.3"), ("0.25", "0.25"), ("0.1", "0.7")]
AD3_PAL = [("0.2", "0.3", "0.4"), ("0.1", "0.1", "0.1"), ("0.3", "0.3", "0.4"), ("0.5", "0.2", "0.1")]
V = ["X", "Y", "Z"]


def isvar(x):
    return isinstance(x, str) and (x[:1].isupper() or x[:1] == "_")


def L(pred, args=(), neg=False):
    return [pred, list(args), bool(neg)]


def gen(rng, stratified=True, allow_cycles=True, max_consts=3, extremes=0.08, n_evidence=None, mode=None):
    """Generate one program.  stratified=True keeps negation on strictly lower levels (C01 fragment) while positive
    literals may refer to any predicate of the same or a lower level (self and mutual recursion);
    stratified=False (G_negcycle) lets negated literals refer to any predicate.
    mode: 'mixed' (arity 0-2 predicates), 'prop' (dense propositional mutual recursion), 'graph' (probabilistic
    graph reachability, left/right recursive), None = random choice."""
    if mode is None:
        mode = rng.choice(["mixed"] * 6 + ["prop"] * 2 + ["graph"] * 2 + ["rel"])
    if mode == "graph":
        return gen_graph(rng, stratified, n_evidence)
    if mode == "rel":
        return gen_rel(rng, n_evidence)
    consts = [1, 2, 3][: (rng.choice([2, 3]) if max_consts >= 3 else 2)]
    clauses = []
    facts = []

    def prob():
        if rng.random() < extremes:
            return rng.choice(["0.0", "1.0"])
        return rng.choice(PAL)
    for i in range(rng.randint(2, 4)):
        ar = rng.choice([0, 1, 1, 2]) if mode == "mixed" else 0
        name = "f%d" % i
        facts.append((name, ar))
        n = 0
        for args in itertools.product(consts, repeat=ar):
            if ar == 0 or rng.random() < (0.7 if ar < 2 else 0.45):
                if rng.random() < 0.1:
                    clauses.append(["rule", None, L(name, args), []])     # a certain fact among the probabilistic ones
                else:
                    clauses.append(["fact", prob(), L(name, args)])
                n += 1
                if rng.random() < 0.12:  # duplicate fact for the same atom (noisy-or)
                    clauses.append(["fact", prob(), L(name, args)])
        if n == 0:
            clauses.append(["fact", prob(), L(name, [consts[0]] * ar)])
    npred = rng.randint(2, 4) if mode == "mixed" else rng.randint(3, 5)
    preds = [("d%d" % j, rng.choice([0, 1, 1, 2]) if mode == "mixed" else 0) for j in range(npred)]
    # levels: non-decreasing; predicates of one level may be mutually recursive
    nlev = rng.choice([1, 2, 2, 3]) if mode == "mixed" else rng.choice([1, 1, 2])
    level = sorted(rng.randrange(nlev) for _ in preds)

    def rand_args(qa, bvars):
        return [rng.choice(bvars) if bvars and rng.random() < 0.85 else rng.choice(consts) for _ in range(qa)]

    def body_for(j, hv):
        bvars = list(hv)
        if not hv and rng.random() < 0.07:
            # body made of negative literals only (h :- \+x.): the head becomes an alias of a negated node
            low = facts + [pq for k, pq in enumerate(preds) if level[k] < level[j]] if stratified else facts + preds
            out = []
            for _ in range(rng.choice([1, 1, 2])):
                q, qa = rng.choice(low)
                out.append(L(q, [rng.choice(consts) for _ in range(qa)], neg=True))
            return out
        if mode == "mixed" and len(bvars) < 3 and rng.random() < 0.45:
            bvars.append(V[len(bvars)])
        if allow_cycles:
            same = [pq for k, pq in enumerate(preds) if level[k] <= level[j]]
        else:
            same = preds[:j]
        lower = [pq for k, pq in enumerate(preds) if level[k] < level[j]]
        cand = facts + same
        if mode == "prop":
            cand = facts + same + same
        if not stratified and rng.random() < 0.3:
            cand = facts + preds
        need = list(bvars)
        pos = []
        tries = 0
        while (need or not pos) and tries < 30:
            tries += 1
            q, qa = rng.choice(cand)
            if qa == 0:
                if need:
                    continue
                pos.append(L(q))
                continue
            args = rand_args(qa, bvars)
            if need:
                args[rng.randrange(qa)] = need.pop(0)
                for k in range(qa):
                    if args[k] in need and rng.random() < 0.5:
                        need.remove(args[k])
            pos.append(L(q, args))
        for v in need:
            pos.append(L("dom", [v]))
        if len(pos) < 3 and rng.random() < (0.3 if mode == "mixed" else 0.6):
            q, qa = rng.choice(cand)
            pos.append(L(q, rand_args(qa, bvars)))
        body = pos
        if rng.random() < (0.4 if stratified else 0.6):
            low = facts + lower if stratified else facts + preds
            if not stratified and rng.random() < 0.5:
                low = preds
            q, qa = rng.choice(low)
            body = body + [L(q, rand_args(qa, bvars), neg=True)]
        return body

    adheads = {}
    for j, (p, ar) in enumerate(preds):
        for r in range(rng.randint(1, 3) if mode == "mixed" else rng.randint(2, 3)):
            hv = V[:ar]
            head = L(p, hv)
            kind = rng.random()
            if kind < 0.2:
                clauses.append(["rule", prob(), head, body_for(j, hv)])
            elif kind < 0.38:
                other = L("a%d" % j, hv)
                adheads["a%d" % j] = ar
                if rng.random() < 0.25:
                    ps = rng.choice(AD3_PAL)
                    third = L(p, [consts[0]] * ar) if ar and rng.random() < 0.5 else L("b%d" % j, hv)
                    if third[0].startswith("b"):
                        adheads["b%d" % j] = ar
                    hs = [[ps[0], head], [ps[1], other], [ps[2], third]]
                else:
                    ps = rng.choice(AD_PAL)
                    hs = [[ps[0], head], [ps[1], other]]
                clauses.append(["ad", hs, body_for(j, hv) if rng.random() < 0.85 else []])
                if not clauses[-1][2]:
                    # AD fact: heads must be ground
                    for h in hs:
                        h[1][1] = [consts[0] if isvar(a) else a for a in h[1][1]]
            else:
                clauses.append(["rule", None, head, body_for(j, hv)])
    if mode == "mixed":
        # predicates that mix ground heads with variable heads (clause indexing on several argument positions):
        # a fact predicate that also has a general probabilistic clause, a derived predicate that also has a ground-headed clause
        for name, ar in list(facts):
            if ar >= 1 and rng.random() < 0.2 and len(consts) ** ar <= 4:
                hv = V[:ar]
                clauses.append(["rule", prob(), L(name, hv), [L("dom", [v]) for v in hv]])
        for j, (p, ar) in enumerate(preds):
            if ar >= 1 and rng.random() < 0.2:
                clauses.append(["rule", rng.choice([None, prob()]), L(p, [rng.choice(consts) for _ in range(ar)]), body_for(j, [])])
    if rng.random() < 0.4:
        ps = rng.choice(AD_PAL)
        clauses.append(["ad", [[ps[0], L("g", [consts[0]])], [ps[1], L("g", [consts[-1]])]], []])
        facts.append(("g", 1))
    for c in consts:
        clauses.append(["rule", None, L("dom", [c]), []])
    allp = preds + sorted(adheads.items())
    queries = []
    nq = rng.randint(1, 3) if mode == "mixed" else rng.randint(2, 4)
    for p, ar in rng.sample(allp, min(nq, len(allp))):
        queries.append(L(p, [rng.choice(["_"] + consts) for _ in range(ar)]))
    # several queries on one predicate (different instantiation patterns of the same goal)
    for q in list(queries):
        if q[1] and rng.random() < 0.3:
            q2 = L(q[0], [rng.choice(["_"] + consts) for _ in q[1]])
            if q2 not in queries:
                queries.append(q2)
    evidence = []
    ne = n_evidence if n_evidence is not None else rng.choice([0, 0, 1, 1, 2])
    for _ in range(ne):
        p, ar = rng.choice(allp + allp + facts)
        e = L(p, [rng.choice(consts) for _ in range(ar)])
        if not any(x[0][:2] == e[:2] for x in evidence):
            evidence.append([e, rng.random() < 0.5])
    # shuffle clause order a little (facts first is not required by the semantics)
    if rng.random() < 0.3:
        rng.shuffle(clauses)
    prog = dict(consts=consts, clauses=clauses, queries=queries, evidence=evidence)
    if rng.random() < 0.15:
        prog = add_aliases(rng, prog)
    return prog


def add_aliases(rng, prog):
    """Alias atoms: al_k :- x.  /  al_k :- \\+x.  as the ONLY clause of al_k, so that al_k shares the ground node of x (or is its
    negation).  Aliases are queried, used in a new rule body, and may take over an evidence item (with the value flipped for a
    negative alias), which is the same program for the reference."""
    prog = dict(prog, clauses=list(prog["clauses"]), queries=list(prog["queries"]), evidence=[list(e) for e in prog["evidence"]])
    consts = prog["consts"]
    ground = []
    for c in prog["clauses"]:
        heads = [c[2]] if c[0] in ("fact", "rule") else [h for _, h in c[1]]
        for h in heads:
            if h[0] != "dom":
                g = L(h[0], [a if not isvar(a) else rng.choice(consts) for a in h[1]])
                if g not in ground:
                    ground.append(g)
    if not ground:
        return prog
    n = 0
    # fresh names when the program already has aliases
    k0 = 1 + max([int(c[2][0][2:]) for c in prog["clauses"] if c[0] == "rule" and c[2][0].startswith("al") and c[2][0][2:].isdigit()] or [-1])
    for k in range(k0, k0 + rng.randint(1, 3)):
        t = rng.choice(ground)
        neg = rng.random() < 0.5
        al = L("al%d" % k)
        prog["clauses"].append(["rule", None, al, [L(t[0], t[1], neg)]])
        r = rng.random()
        if r < 0.5:
            prog["queries"].append(al)
        if r > 0.3:
            f = rng.choice(ground)
            prog["clauses"].append(["rule", None, L("top%d" % k), [al, L(f[0], f[1], rng.random() < 0.2)]])
            prog["queries"].append(L("top%d" % k))
        for e in prog["evidence"]:
            if e[0][:2] == t[:2] and rng.random() < 0.6:
                e[0] = al
                e[1] = (not e[1]) if neg else e[1]
        if not prog["evidence"] and rng.random() < 0.3:
            prog["evidence"].append([al, rng.random() < 0.5])
        n += 1
    return prog


def gen_rel(rng, n_evidence=None):
    """relations whose definition mixes ground facts, ground-headed rules and general (variable-headed) clauses, queried and
    called with every binding pattern (both arguments bound, one bound, none bound), several queries per relation"""
    consts = [1, 2] if rng.random() < 0.6 else [1, 2, 3]
    clauses = []
    pairs = [(a, b) for a in consts for b in consts]
    rng.shuffle(pairs)
    for a, b in pairs[: rng.randint(2, min(4, len(pairs)))]:
        clauses.append(["fact", rng.choice(PAL), L("f0", [a, b])])
    for c in consts:
        if rng.random() < 0.7:
            clauses.append(["fact", rng.choice(PAL), L("f1", [c])])
    if not any(c[2][0] == "f1" for c in clauses):
        clauses.append(["fact", "0.5", L("f1", [consts[0]])])
    # general clauses for the fact relation itself
    if rng.random() < 0.6:
        clauses.append(["rule", rng.choice(PAL), L("f0", ["X", "Y"]), [L("dom", ["X"]), L("dom", ["Y"])]])
    if rng.random() < 0.3:
        clauses.append(["rule", rng.choice([None, rng.choice(PAL)]), L("f0", ["X", "X"]), [L("f1", ["X"])]])
    # derived relation d0/2 with ground-headed and general clauses
    bodies = [[L("f0", ["X", "Y"])], [L("f0", ["Y", "X"])], [L("f0", ["X", "Z"]), L("f0", ["Z", "Y"])], [L("f1", ["X"]), L("f1", ["Y"])],
              [L("f0", ["X", "Y"]), L("f1", ["X"], True)]]
    for b in rng.sample(bodies, rng.randint(1, 3)):
        clauses.append(["rule", rng.choice([None, None, rng.choice(PAL)]), L("d0", ["X", "Y"]), b])
    for _ in range(rng.randint(0, 2)):
        a, b = rng.choice(pairs)
        clauses.append(["rule", rng.choice([None, rng.choice(PAL)]), L("d0", [a, b]), [L("f1", [rng.choice(consts)], rng.random() < 0.2)]])
    if rng.random() < 0.4:
        clauses.append(["rule", None, L("d1", ["X"]), [L("d0", ["X", rng.choice(consts)])]])
        clauses.append(["rule", None, L("d1", ["X"]), [L("d0", [rng.choice(consts), "X"]), L("f1", ["X"])]])
    if rng.random() < 0.5:
        rng.shuffle(clauses)
    for c in consts:
        clauses.append(["rule", None, L("dom", [c]), []])
    queries = []
    rels = ["f0", "d0"]
    for _ in range(rng.randint(2, 4)):
        r = rng.choice(rels)
        pat = rng.randrange(4)
        a, b = rng.choice(consts), rng.choice(consts)
        q = L(r, [a, b] if pat == 0 else [a, "_"] if pat == 1 else ["_", b] if pat == 2 else [b, a])
        if q not in queries:
            queries.append(q)
    if any(c[0] == "rule" and c[2][0] == "d1" for c in clauses) and rng.random() < 0.6:
        queries.append(L("d1", [rng.choice(["_"] + consts)]))
    evidence = []
    ne = n_evidence if n_evidence is not None else rng.choice([0, 0, 1])
    for _ in range(ne):
        e = L(rng.choice(rels), [rng.choice(consts), rng.choice(consts)])
        if not any(x[0][:2] == e[:2] for x in evidence):
            evidence.append([e, rng.random() < 0.5])
    return dict(consts=consts, clauses=clauses, queries=queries, evidence=evidence)


def gen_graph(rng, stratified=True, n_evidence=None):
    """probabilistic graph reachability over 3-4 nodes with cycles; left-, right- or doubly-recursive path/2,
    optional second relation, several / non-ground queries, evidence on path atoms"""
    n = rng.choice([3, 3, 4])
    consts = list(range(1, n + 1))
    clauses = []
    edges = [(a, b) for a in consts for b in consts if a != b or rng.random() < 0.15]
    rng.shuffle(edges)
    ne = rng.randint(n, min(len(edges), n + 3))
    for a, b in edges[:ne]:
        if rng.random() < 0.15:
            clauses.append(["rule", None, L("f0", [a, b]), []])          # a certain edge
        else:
            clauses.append(["fact", rng.choice(PAL), L("f0", [a, b])])
    for c in consts:
        if rng.random() < 0.5:
            clauses.append(["fact", rng.choice(PAL), L("f1", [c])])
    if not any(c[2][0] == "f1" for c in clauses):
        clauses.append(["fact", "0.5", L("f1", [consts[0]])])
    E = "f0"
    style = rng.choice(["right", "left", "right", "left", "sym", "double"])
    if style == "double" and (n > 3 or ne > 4):
        style = "left"  # doubly recursive closure makes cycle breaking explode (slow, not wrong): keep it tiny
    clauses.append(["rule", None, L("d0", ["X", "Y"]), [L(E, ["X", "Y"])]])
    if style == "right":
        clauses.append(["rule", None, L("d0", ["X", "Y"]), [L(E, ["X", "Z"]), L("d0", ["Z", "Y"])]])
    elif style == "left":
        clauses.append(["rule", None, L("d0", ["X", "Y"]), [L("d0", ["X", "Z"]), L(E, ["Z", "Y"])]])
    elif style == "double":
        clauses.append(["rule", None, L("d0", ["X", "Y"]), [L("d0", ["X", "Z"]), L("d0", ["Z", "Y"])]])
    else:
        clauses.append(["rule", None, L("d0", ["X", "Y"]), [L("d0", ["Y", "X"])]])
        clauses.append(["rule", None, L("d0", ["X", "Y"]), [L(E, ["X", "Z"]), L("d0", ["Z", "Y"])]])
    if rng.random() < 0.5:
        # a second, mutually recursive relation
        clauses.append(["rule", None, L("d1", ["X"]), [L("f1", ["X"])]])
        clauses.append(["rule", None, L("d1", ["X"]), [L("d0", ["X", "Y"]), L("d1", ["Y"])]])
        if rng.random() < 0.15 and n == 3 and ne <= 4:
            clauses.append(["rule", rng.choice(PAL), L("d0", ["X", "Y"]), [L("d1", ["X"]), L("d1", ["Y"]), L("dom", ["X"]), L("dom", ["Y"])]])
    else:
        clauses.append(["rule", None, L("d1", ["X"]), [L("d0", ["X", "X"])]])
    if rng.random() < 0.4:
        clauses.append(["rule", None, L("d2", ["X"]), [L("dom", ["X"]), L("d1", ["X"], neg=True)]])
        preds = [("d0", 2), ("d1", 1), ("d2", 1)]
    else:
        preds = [("d0", 2), ("d1", 1)]
    for c in consts:
        clauses.append(["rule", None, L("dom", [c]), []])
    queries = []
    for _ in range(rng.randint(1, 4)):
        p, ar = rng.choice(preds)
        q = L(p, [rng.choice(["_"] + consts) for _ in range(ar)])
        if q not in queries:
            queries.append(q)
    evidence = []
    ne = n_evidence if n_evidence is not None else rng.choice([0, 0, 1, 1, 2])
    for _ in range(ne):
        p, ar = rng.choice(preds + [("f0", 2)])
        e = L(p, [rng.choice(consts) for _ in range(ar)])
        if not any(x[0][:2] == e[:2] for x in evidence):
            evidence.append([e, rng.random() < 0.5])
    return dict(consts=consts, clauses=clauses, queries=queries, evidence=evidence)


def add_tautologies(rng, prog):
    """append derived atoms that are true (t*) / false (u*) in every world without the builder being able to fold them,
    and negations of them: exercises literals that never occur in any model of the CNF (absent from the d-DNNF)."""
    ground_facts = [c[2] for c in prog["clauses"] if c[0] == "fact"]
    if len(ground_facts) < 2:
        return prog
    x, y = rng.sample(ground_facts, 2)
    X, Y = L(x[0], x[1]), L(y[0], y[1])
    nX, nY = L(x[0], x[1], True), L(y[0], y[1], True)
    k = rng.choice([0, 1, 2])
    cl = prog["clauses"]
    if k == 0:
        cl += [["rule", None, L("t0"), [X]], ["rule", None, L("t0"), [nX, Y]], ["rule", None, L("t0"), [nX, nY]]]
    elif k == 1:
        cl += [["rule", None, L("t0"), [X, Y]], ["rule", None, L("t0"), [nX]], ["rule", None, L("t0"), [nY]]]
    else:
        cl += [["rule", None, L("al"), [X]], ["rule", None, L("t0"), [L("al")]], ["rule", None, L("t0"), [nX, Y]],
               ["rule", None, L("t0"), [nY, nX]]]
    cl += [["rule", None, L("s0"), [L("t0", [], True)]]]
    cl += [["rule", None, L("u0"), [X, L("s0")]]]
    if rng.random() < 0.5:
        cl += [["rule", None, L("w0"), [Y, L("u0", [], True)]]]
        prog["queries"].append(L("w0"))
    for q in rng.sample(["t0", "s0", "u0"], rng.randint(1, 3)):
        prog["queries"].append(L(q))
    if rng.random() < 0.3:
        prog["evidence"].append([L(rng.choice(["t0", "s0"])), rng.random() < 0.5])
    return prog


# ---------------------------------------------------------------- printing
def lit_txt(l, negsym="\\+"):
    pred, args, neg = l
    a = pred if not args else "%s(%s)" % (pred, ",".join(map(str, args)))
    return (negsym + a) if neg else a


def clause_txt(c):
    if c[0] == "fact":
        return "%s::%s." % (c[1], lit_txt(c[2]))
    if c[0] == "rule":
        h = lit_txt(c[2]) if c[1] is None else "%s::%s" % (c[1], lit_txt(c[2]))
        return h + "." if not c[3] else "%s :- %s." % (h, ", ".join(lit_txt(l) for l in c[3]))
    h = "; ".join("%s::%s" % (p, lit_txt(l)) for p, l in c[1])
    return h + "." if not c[2] else "%s :- %s." % (h, ", ".join(lit_txt(l) for l in c[2]))


def to_text(prog, evidence_style=0, queries=True, evidence=True, disj=False):
    """disj=True prints groups of deterministic rules with the same head as ONE clause with a disjunctive body
    (h :- (b1 ; b2).), which is the same program for the reference (it keeps the separate rules)."""
    out = []
    cl = prog["clauses"]
    used = set()
    for i, c in enumerate(cl):
        if i in used:
            continue
        if disj and c[0] == "rule" and c[1] is None and c[3]:
            grp = [j for j in range(i, len(cl)) if j not in used and cl[j][0] == "rule" and cl[j][1] is None and cl[j][3]
                   and cl[j][2] == c[2]]
            if len(grp) >= 2:
                grp = grp[:3]
                used.update(grp)
                bodies = ["(%s)" % ", ".join(lit_txt(l) for l in cl[j][3]) if len(cl[j][3]) > 1 else lit_txt(cl[j][3][0]) for j in grp]
                out.append("%s :- (%s)." % (lit_txt(c[2]), " ; ".join(bodies)))
                continue
        out.append(clause_txt(c))
    if queries:
        for q in prog["queries"]:
            out.append("query(%s)." % lit_txt(q))
    if evidence:
        for e, v in prog["evidence"]:
            out.append(evidence_txt(e, v, evidence_style))
    return "\n".join(out) + "\n"


def evidence_txt(e, v, style=0):
    t = lit_txt(e)
    if style == 0:
        return "evidence(%s,%s)." % (t, "true" if v else "false")
    if style == 1:
        return "evidence(%s)." % t if v else "evidence(\\+%s)." % t
    if style == 2:
        return "evidence(%s)." % t if v else "evidence(not %s)." % t
    return "evidence(%s,%s)." % (t, "true" if v else "false")


# ---------------------------------------------------------------- syntactic features
def rules_of(prog):
    rules = []
    for c in prog["clauses"]:
        if c[0] == "rule":
            rules.append(([c[2]], c[3], c[1] is not None))
        elif c[0] == "ad":
            rules.append(([h for _, h in c[1]], c[2], True))
    return rules


def features(prog):
    rules = rules_of(prog)
    dep = {}
    posdep = {}
    negdep = {}
    for heads, body, _p in rules:
        for h in heads:
            for l in body:
                dep.setdefault(h[0], set()).add(l[0])
                if l[2]:
                    negdep.setdefault(h[0], set()).add(l[0])
                else:
                    posdep.setdefault(h[0], set()).add(l[0])

    def reach(a, b, d=None):
        d = dep if d is None else d
        seen, st = set(), [a]
        while st:
            x = st.pop()
            for y in sorted(d.get(x, ())):
                if y == b:
                    return True
                if y not in seen:
                    seen.add(y)
                    st.append(y)
        return False
    # predicates on a cycle of positive edges (cycles through negation are what C02 is about, not 'recursion')
    cyc = sorted(p for p in posdep if reach(p, p, posdep))
    f = dict(rec=bool(cyc), contra=False, neg_cyclic_in_cycle=False, has_neg=False, has_ad_body=False,
             has_ad=False, prob_rule=False, nonground_query=False, evidence=bool(prog["evidence"]),
             evidence_derived=False, pred_neg_cycle=False, dup_fact=False, extreme_p=False)
    derived = {h[0] for heads, _, _ in rules for h in heads}
    for e, _v in prog["evidence"]:
        if e[0] in derived:
            f["evidence_derived"] = True
    for q in prog["queries"]:
        if any(a == "_" or isvar(a) for a in q[1]):
            f["nonground_query"] = True
    seen_facts = set()
    for c in prog["clauses"]:
        if c[0] == "ad":
            f["has_ad"] = True
            if c[2]:
                f["has_ad_body"] = True
            if any(p in ("0.0", "1.0") for p, _ in c[1]):
                f["extreme_p"] = True
        if c[0] == "rule" and c[1] is not None and c[3]:
            f["prob_rule"] = True
        if c[0] == "fact":
            k = (c[2][0], tuple(c[2][1]))
            if k in seen_facts:
                f["dup_fact"] = True
            seen_facts.add(k)
        if c[0] in ("fact", "rule") and c[1] in ("0.0", "1.0"):
            f["extreme_p"] = True
    f["contra_ev"] = False
    f["contra_cyc"] = False
    # predicates on a positive cycle, and everything such a predicate calls: a FALSE proof of any of them is handed to a define
    # node that is being evaluated inside the cycle
    cone = set(cyc)
    for c in cyc:
        st = [c]
        while st:
            x = st.pop()
            for y in dep.get(x, ()):
                if y not in cone:
                    cone.add(y)
                    st.append(y)
    for heads, body, _p in rules:
        # a body literal that contradicts an evidence atom makes the body deterministically FALSE after evidence
        # propagation: the same 'false proof' mechanism as a syntactic contradiction (known finding KF-A)
        oncyc = any(h[0] in cone for h in heads)
        for l in body:
            for e, v in prog["evidence"]:
                if e[0] == l[0] and bool(v) == bool(l[2]) and all(x == y or isvar(x) for x, y in zip(l[1], e[1])):
                    f["contra_ev"] = True
                    if oncyc:
                        f["contra_cyc"] = True
    for heads, body, _p in rules:
        pos = [l for l in body if not l[2]]
        oncyc = any(h[0] in cone for h in heads)
        for n in [l for l in body if l[2]]:
            f["has_neg"] = True
            for q in pos:
                if q[0] == n[0] and len(q[1]) == len(n[1]) and all(
                        x == y or isvar(x) or isvar(y) for x, y in zip(q[1], n[1])):
                    f["contra"] = True
                    if oncyc:
                        f["contra_cyc"] = True
            for h in heads:
                if n[0] == h[0] or reach(n[0], h[0]):
                    f["pred_neg_cycle"] = True
            if n[0] in cyc or any(reach(n[0], c) for c in cyc):
                for h in heads:
                    if h[0] in cyc or any(reach(c, h[0]) for c in cyc):
                        f["neg_cyclic_in_cycle"] = True
    # evidence on an atom whose predicate is cyclic or depends on a cyclic predicate: with evidence propagation the engine
    # substitutes TRUE/FALSE constants for nodes inside the cycle (same FALSE-proof mechanism as KF-A)
    f["ev_reaches_cycle"] = any(e[0] in cyc or any(reach(e[0], c) for c in cyc) for e, _v in prog["evidence"])
    f["clean"] = not f["contra_cyc"] and not f["neg_cyclic_in_cycle"]
    return f


def cyclic_preds(prog):
    dep = {}
    for heads, body, _p in rules_of(prog):
        for h in heads:
            for l in body:
                if not l[2]:
                    dep.setdefault(h[0], set()).add(l[0])
    out = set()
    for p0 in dep:
        seen, st = set(), [p0]
        while st:
            x = st.pop()
            for y in dep.get(x, ()):
                if y == p0:
                    out.add(p0)
                if y not in seen:
                    seen.add(y)
                    st.append(y)
    # plus everything a cyclic predicate calls (positively or negatively): see features()
    alldep = {}
    for heads, body, _p in rules_of(prog):
        for h in heads:
            for l in body:
                alldep.setdefault(h[0], set()).add(l[0])
    cone = set(out)
    st = list(out)
    while st:
        x = st.pop()
        for y in alldep.get(x, ()):
            if y not in cone:
                cone.add(y)
                st.append(y)
    return cone


def refine_with_reference(F, R):
    """the reference knows whether a ground clause body on a cycle is FALSE in every world (e.g. p(X), \\+q(X) where
    q is an alias of p): same 'false proof inside a cycle' input class as a syntactic contradiction"""
    if getattr(R, "dead_body_in_cycle", False):
        F["contra_cyc"] = True
        F["clean"] = False
    # a deterministically FALSE body anywhere (not on a cycle): only relevant for zero-probability instance reporting
    F["contra_any"] = bool(F.get("contra") or F.get("contra_ev") or getattr(R, "dead_body_any", False))
    return F


def feat_list(f):
    return sorted(k for k, v in f.items() if v)
