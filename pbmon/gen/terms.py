"""G_term: harness-owned term AST, printing, conversion from problog Terms, enumeration.

    ["i", 3] int   ["f", 2.5] float   ["a", "name"] atom (unquoted text)   ["s", "text"] string
    ["v", "X"] variable   ["c", functor, [args...]] compound   ["l", [elems...], tail|None] list
"""
import itertools
import re

_PLAIN = re.compile(r"^[a-z][A-Za-z0-9_]*$")


def atom_txt(name):
    if _PLAIN.match(name) or name == "[]":
        return name
    return "'%s'" % name.replace("\\", "\\\\").replace("'", "\\'")


def txt(t):
    k = t[0]
    if k == "i":
        return str(t[1])
    if k == "f":
        return repr(float(t[1]))
    if k == "a":
        return atom_txt(t[1])
    if k == "s":
        return '"%s"' % t[1]
    if k == "v":
        return t[1]
    if k == "c":
        return "%s(%s)" % (atom_txt(t[1]), ",".join(txt(a) for a in t[2]))
    if k == "l":
        inner = ",".join(txt(a) for a in t[1])
        if t[2] is not None:
            return "[%s|%s]" % (inner, txt(t[2]))
        return "[%s]" % inner
    raise ValueError(t)


def norm(t):
    """lists -> '.'/2 compounds with '[]' atom, tuples -> lists (canonical, hashable via tup())"""
    k = t[0]
    if k == "l":
        tail = norm(t[2]) if t[2] is not None else ["a", "[]"]
        for e in reversed(t[1]):
            tail = ["c", ".", [norm(e), tail]]
        return tail
    if k == "c":
        return ["c", t[1], [norm(a) for a in t[2]]]
    return list(t)


def tup(t):
    t = norm(t)
    if t[0] == "c":
        return ("c", t[1], tuple(tup(a) for a in t[2]))
    return tuple(t)


def from_pl(t):
    """convert a problog Term/Constant/Var/int as returned by engine.query into the AST (normalised)"""
    from problog.logic import Constant, Var, Term
    if t is None:
        return ["v", "_"]
    if isinstance(t, bool):
        raise ValueError("bool")
    if isinstance(t, int):
        return ["v", "_G%d" % (-t)]
    if isinstance(t, Var):
        return ["v", str(t.name)]
    if isinstance(t, Constant):
        f = t.functor
        if isinstance(f, bool):
            raise ValueError("bool constant")
        if isinstance(f, int):
            return ["i", f]
        if isinstance(f, float):
            return ["f", f]
        s = str(f)
        if len(s) >= 2 and s[0] == '"' and s[-1] == '"':
            return ["s", s[1:-1]]
        return ["a", unquote(s)]
    if isinstance(t, Term):
        if t.arity == 0:
            return ["a", unquote(str(t.functor))]
        return ["c", unquote(str(t.functor)), [from_pl(a) for a in t.args]]
    raise ValueError("unexpected %r" % (t,))


def unquote(s):
    if len(s) >= 2 and s[0] == "'" and s[-1] == "'":
        return s[1:-1].replace("\\'", "'").replace("\\\\", "\\")
    return s


def variables(t, acc=None):
    acc = [] if acc is None else acc
    if t[0] == "v":
        if t[1] not in acc:
            acc.append(t[1])
    elif t[0] == "c":
        for a in t[2]:
            variables(a, acc)
    elif t[0] == "l":
        for a in t[1]:
            variables(a, acc)
        if t[2] is not None:
            variables(t[2], acc)
    return acc


def canon_vars(t, m):
    """rename variables in order of first appearance (on the normalised term)"""
    t = norm(t)

    def go(x):
        if x[0] == "v":
            if x[1] == "_":
                m["_anon%d" % len(m)] = "_V%d" % len(m)
                return ("v", "_V%d" % (len(m) - 1))
            if x[1] not in m:
                m[x[1]] = "_V%d" % len(m)
            return ("v", m[x[1]])
        if x[0] == "c":
            return ("c", x[1], tuple(go(a) for a in x[2]))
        return tuple(x)
    return go(t)


def size(t):
    if t[0] == "c":
        return 1 + sum(size(a) for a in t[2])
    if t[0] == "l":
        return 1 + sum(size(a) for a in t[1]) + (size(t[2]) if t[2] is not None else 0)
    return 1


# ---------------------------------------------------------------- enumeration / sampling
ATOMS = ["a", "b", "B", "hello world", "[]", "ab"]
INTS = [0, 1, 2, 10, -1, -3, 33]
FLOATS = [1.0, 2.5, -0.5, 10.0]


def leaves(nvars=2, strings=False, ground=False):
    out = [["i", v] for v in INTS] + [["f", v] for v in FLOATS] + [["a", a] for a in ATOMS]
    if strings:
        out += [["s", "str"], ["s", "a"]]
    if not ground:
        out = [["v", "XYZ"[i]] for i in range(nvars)] + out
    return out


def enum_terms(depth, base, functors=(("f", 1), ("g", 2)), lists=True, limit=None):
    """all terms up to the given depth over base leaves (bounded by limit at each level)"""
    level = list(base)
    for _ in range(depth):
        new = []
        for name, ar in functors:
            for args in itertools.product(level, repeat=ar):
                new.append(["c", name, list(args)])
                if limit and len(new) > limit:
                    break
        if lists:
            for n in (1, 2):
                for args in itertools.product(level[:8], repeat=n):
                    new.append(["l", list(args), None])
            for h in level[:4]:
                for tl in level[:2]:
                    if tl[0] == "v":
                        new.append(["l", [h], tl])
        level = level + new
    return level


def rand_term(rng, depth=3, nvars=3, ground=False, strings=False, small=False):
    r = rng.random()
    if depth <= 0 or r < 0.35:
        k = rng.random()
        if not ground and k < 0.3:
            return ["v", "XYZW"[rng.randrange(nvars)]]
        if k < 0.55:
            return ["i", rng.choice(INTS + ([100, -7, 5] if not small else []))]
        if k < 0.7:
            return ["f", rng.choice(FLOATS + ([0.0, -2.5] if not small else []))]
        if strings and k < 0.75:
            return ["s", rng.choice(["str", "a", "x y"])]
        return ["a", rng.choice(ATOMS + (["c", "foo", "Hello", "it's"] if not small else []))]
    if r < 0.8:
        name, ar = rng.choice([("f", 1), ("g", 2), ("g", 2), ("h", 3), ("a", 1), ("f", 2)])
        return ["c", name, [rand_term(rng, depth - 1, nvars, ground, strings, small) for _ in range(ar)]]
    n = rng.randint(0, 3)
    tail = None
    if not ground and rng.random() < 0.25 and n > 0:
        tail = ["v", "XYZW"[rng.randrange(nvars)]]
    if n == 0:
        return ["a", "[]"]
    return ["l", [rand_term(rng, depth - 1, nvars, ground, strings, small) for _ in range(n)], tail]
