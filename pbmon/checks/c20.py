"""C20 MPE returns a most probable world consistent with the evidence."""
import math

from ..core import ok, viol, skip, COUNTERS
from ..gen import prog as G
from ..ref import optim
from .. import sut, judge, instrument, sanitize

ID = "C20"
LEVEL = "exploration"
RULE = ("case = generated program with evidence (probabilistic facts incl. duplicates, ADs with and without bodies, probabilistic rules, "
        "negation, recursion), no queries, solved by both MPE modes: mpe_maxsat on the LogicDAG (bundled maxsatz) and mpe_semiring; "
        "the reported probability must equal the probability of the most probable evidence-consistent assignment to the choices the "
        "evidence depends on, found by exhaustive enumeration (MaxSAT: |dlog P| <= (n+1)*1e-4 for the integer weight quantisation, "
        "semiring: 1e-9); impossible evidence must be reported as unsatisfiable; non-trivial = >= 3 relevant choices and evidence on a "
        "derived atom; distinct by program text")
ASSUMPTIONS = ["a choice group that is reachable from the evidence but on which the truth of the evidence never depends may or may not be part of the "
               "ground program: the optimum over either relevant set is accepted",
               "relevance is goal-directed: options of an AD whose head the evidence does not depend on are merged into one 'other' option "
               "(this is how the ground program represents them)", "the reported assignment itself is not re-parsed; its probability is the oracle"]
LEVEL_TEXT = ("Each program is solved by both real MPE implementations (including the external maxsatz process) and the optimum value is "
              "compared with brute-force enumeration; unsatisfiable evidence must be reported as such.")
LEVEL_NOTE = ("Trusts pbmon/ref/optim.py + worlds.py. Auxiliary: every maxsatz call of the workload runs an ASan+UBSan build of the bundled "
              "solver source; any sanitizer report is a violation (none on the unchanged tree).")
TECHNIQUE = "runtime reference-model monitor (brute-force MPE) for both MPE modes + ASan/UBSan build of the bundled maxsatz solver"
BUDGET = {"quick": 1500, "thorough": 20000}
TIME_BUDGET = {"quick": 220, "thorough": 3300}
CASE_TIMEOUT = 40
WATCHDOG_FRACTION = 0.04


def prepare(scratch, env, tier):
    sanitize.prepare(scratch, env)


def collect(scratch, recs, counters):
    sanitize.collect(scratch, recs, counters)


def setup_worker(tier):
    sanitize.worker_probe(COUNTERS)
    instrument.reach_install({"mpe.py": ["mpe_maxsat", "mpe_semiring"], "maxsat.py": ["MaxSATSolver.evaluate"]})


def gen_case(rng, i, tier):
    if i % 5 == 4:
        # evidence that forces every head of an annotated disjunction false: the optimum is the (rare) null choice
        L = G.L
        ps = rng.choice([("0.5", "0.4"), ("0.45", "0.45"), ("0.3", "0.3", "0.3"), ("0.6", "0.3"), ("0.5", "0.45"), ("0.4", "0.3", "0.25")])
        heads = [[pp, L("h%d" % k)] for k, pp in enumerate(ps)]
        cl = [["ad", heads, [] if rng.random() < 0.6 else [L("s")]], ["fact", rng.choice(["0.9", "0.5", "1.0"]), L("s")]]
        for k in range(len(ps)):
            cl.append(["rule", None, L("c"), [L("h%d" % k)]])
        ev = [[L("c"), False]]
        if rng.random() < 0.4:
            cl.append(["fact", rng.choice(G.PAL), L("z")])
            cl.append(["rule", None, L("c2"), [L("z"), L("h0", [], True)]])
            ev.append([L("c2"), True])
        return dict(prog=dict(consts=[1], clauses=cl, queries=[], evidence=ev), mode=["maxsat", "semiring"][(i // 5) % 2])
    p = G.gen(rng, stratified=True, n_evidence=rng.choice([1, 1, 2, 2, 3]))
    p["queries"] = []
    return dict(prog=p, mode=["maxsat", "semiring"][i % 2])


def run_mode(text, mode):
    from problog.program import PrologString
    from problog.formula import LogicFormula, LogicDAG
    from problog.tasks import mpe
    try:
        if mode == "maxsat":
            dag = LogicDAG.createFrom(PrologString(text), avoid_name_clash=True, label_all=True, labels=[("output", 1)])
            prob, facts = mpe.mpe_maxsat(dag)
        else:
            lf = LogicFormula.create_from(PrologString(text), label_all=True, avoid_name_clash=True)
            prob, facts = mpe.mpe_semiring(lf)
        return dict(kind="ok", prob=prob, facts=None if facts is None else [str(f) for f in facts])
    except Exception as e:  # noqa
        import subprocess
        if isinstance(e, subprocess.CalledProcessError) and e.returncode is not None and e.returncode > 0:
            # the solver gave up with an ordinary exit status (maxsatz prints 'ERROR: Out of memory.' when the WCNF exceeds its
            # static tables): a capacity limit of the external tool, no verdict; death by signal (negative status) stays a violation
            return dict(kind="solver_gave_up", rc=e.returncode)
        return sut.outcome_of_exception(e)


def run_case(case):
    prog = case["prog"]
    if not prog["evidence"]:
        return skip("no evidence")
    F = G.features(prog)
    st, best, nw, ng = optim.mpe(prog, max_worlds=1 << 12)
    if st == "too_big":
        return skip("reference too big")
    from ..ref import worlds
    R = worlds.reference(dict(prog, queries=[]), max_worlds=1 << 12, cyc_preds=G.cyclic_preds(prog))
    if R.status == "too_big":
        return skip("reference too big")
    F = G.refine_with_reference(F, R)
    cls = judge.input_class(F)
    text = G.to_text(prog)
    mode = case["mode"]
    o = run_mode(text, mode)
    if o["kind"] == "solver_gave_up":
        COUNTERS["solver_gave_up"] += 1
        return skip("external solver exit status %d (capacity)" % o["rc"])
    feats = G.feat_list(F) + [mode, "ref_" + st]
    COUNTERS["mode_%s" % mode] += 1
    COUNTERS["ref_%s" % st] += 1
    tag = "" if cls in ("clean", "contra") else "|" + cls
    nt = ng >= 3 and F["evidence_derived"]
    if o["kind"] != "ok":
        if st == "unsat" and o["kind"] in ("inconsistent", "problog_error") and o["exc"] in ("InconsistentEvidenceError", "UnsatisfiableError"):
            return ok(nontrivial=nt, feat=feats, sample=text)
        return viol("mpe:%s:%s%s" % (mode, o["sig"], tag), "%s raised %s (reference: %s %s)\n%s" % (mode, sut.describe(o), st,
                    float(best) if best is not None else None, text), nontrivial=nt, feat=feats, sample=text)
    if st == "unsat":
        if o["facts"] is None:
            return ok(nontrivial=nt, feat=feats, sample=text)
        return viol("mpe:%s:unsat-not-reported%s" % (mode, tag), "no assignment is consistent with the evidence, but %s returned probability %r "
                    "with %d facts\n%s" % (mode, o["prob"], len(o["facts"]), text), nontrivial=nt, feat=feats, sample=text)
    if o["facts"] is None:
        return viol("mpe:%s:spurious-unsat%s" % (mode, tag), "reported unsatisfiable but the optimum is %.10g\n%s" % (float(best), text),
                    nontrivial=nt, feat=feats, sample=text)
    p = float(o["prob"])
    b = float(best)
    if mode == "maxsat":
        good = p > 0 and abs(math.log(p) - math.log(b)) <= (ng * 3 + 2) * 1e-4 + 1e-9
    else:
        good = abs(p - b) <= 1e-9 + 1e-9 * b
    if not good and p > 0 and optim.LAST_INFO["irrelevant_groups"]:
        # choice groups on which the evidence never depends may be absent from the ground program, or present with fewer separate options
        tol = (ng * 3 + 2) * 1e-4 + 1e-9 if mode == "maxsat" else 1e-9
        feas = optim.feasible_optima()
        if feas is None:
            return skip("too many feasible optima")
        if any(v > 0 and abs(math.log(p) - math.log(v)) <= tol for v in feas):
            good = True
            COUNTERS["optimum_over_other_relevant_set"] += 1
    if not good:
        dup = "|duplicate-fact" if F.get("dup_fact") else ""
        return viol("mpe:%s:not-optimal%s%s" % (mode, dup, tag), "%s reports probability %.10g, the most probable evidence-consistent assignment has "
                    "%.10g (%d relevant choice groups, %d assignments)\n%s" % (mode, p, b, ng, nw, text), nontrivial=nt, feat=feats, sample=text)
    return ok(nontrivial=nt, feat=feats, sample=text)


def floors(agg):
    c = agg["counters"]
    return ["monitor %s is zero" % k for k in ("mode_maxsat", "mode_semiring", "ref_unsat", "ref_ok", "reach:maxsat:MaxSATSolver.evaluate")
            if not c.get(k)]
