"""C26 subquery/2,3 computes the same probabilities as top-level inference."""
from ..core import ok, viol, skip, COUNTERS
from ..gen import prog as G
from ..ref import worlds
from .. import sut, judge, instrument

ID = "C26"
LEVEL = "exploration"
RULE = ("case = generated program (C01 fragment) plus a deterministic wrapper w(Args,P) :- subquery(g(Args), P) or "
        "subquery(g(Args), P, [e1, \\+e2, ...]) (positive and negated evidence literals, on facts and derived atoms), queried "
        "non-ground; for every answer the bound P must equal the top-level (conditional) probability of that answer given by the "
        "possible-world reference, every reference instance with positive probability must be answered; non-trivial = goal with "
        ">= 2 relevant choices; distinct by program text")
ASSUMPTIONS = ["P is read back from the printed answer (8+ significant digits): tolerance 1e-7", "evidence with probability 0 must raise InconsistentEvidenceError"]
LEVEL_TEXT = ("Each wrapper program runs nested inference inside the real engine; the probabilities bound by subquery are compared with exact "
              "enumeration for the same goal and evidence.")
LEVEL_NOTE = "Trusts pbmon/ref/worlds.py."
TECHNIQUE = "runtime reference-model monitor for nested inference (subquery/2,3)"
BUDGET = {"quick": 700, "thorough": 12000}
TIME_BUDGET = {"quick": 200, "thorough": 3000}
CASE_TIMEOUT = 30
WATCHDOG_FRACTION = 0.04


def setup_worker(tier):
    instrument.reach_install({"engine_builtin.py": ["_builtin_subquery", "_create_evaluator_and_semiring"]})


def gen_case(rng, i, tier):
    p = G.gen(rng, stratified=True, n_evidence=rng.choice([0, 1, 2, 2]))
    preds = {}
    for hs, body, _p in G.rules_of(p):
        for h in hs:
            preds[h[0]] = len(h[1])
    name = rng.choice(sorted(preds))
    return dict(prog=p, goal=[name, preds[name]], with_ev=(i % 2 == 1))


def run_case(case):
    prog = dict(case["prog"])
    name, ar = case["goal"]
    ev = prog["evidence"] if case["with_ev"] else []
    prog["queries"] = [G.L(name, ["_"] * ar)]
    prog["evidence"] = ev
    F = G.features(prog)
    R = worlds.reference(prog, max_worlds=1 << 10, cyc_preds=G.cyclic_preds(prog))
    if R.status == "too_big":
        return skip("reference too big")
    F = G.refine_with_reference(F, R)
    cls = judge.input_class(F)
    vars_ = ["V%d" % k for k in range(ar)]
    goal = name if ar == 0 else "%s(%s)" % (name, ",".join(vars_))
    head = "w(%s)" % ",".join(vars_ + ["P"])
    if ev:
        evl = ", ".join(("" if v else "\\+") + G.lit_txt(e) for e, v in ev)
        wr = "%s :- subquery(%s, P, [%s])." % (head, goal, evl)
    else:
        wr = "%s :- subquery(%s, P)." % (head, goal)
    text = G.to_text(prog, queries=False, evidence=False) + wr + "\nquery(w(%s)).\n" % ",".join(["_"] * (ar + 1))
    o = sut.evaluate_text(text)
    feats = G.feat_list(F) + (["with_evidence"] if ev else ["no_evidence"])
    COUNTERS["sut_" + o["kind"]] += 1
    if R.status == "inconsistent":
        if o["kind"] == "inconsistent":
            return ok(nontrivial=False, feat=feats, sample=text)
        if o["kind"] == "ok":
            return viol("subquery:answered-inconsistent-evidence%s" % ("" if cls == "clean" else "|" + cls),
                        "the evidence list has probability 0 but subquery answered %s\n%s" % (sut.describe(o), text), feat=feats, sample=text)
    if o["kind"] != "ok":
        return viol("subquery:%s|%s" % (o["sig"], cls), "problog raised %s (reference %s)\n%s" % (sut.describe(o), R.status, text),
                    feat=feats, sample=text)
    got = {}
    for nm, val in o["result"].items():
        if not sut.is_ground_name(nm):
            continue
        inner = nm[2:-1]
        parts = sut._split_top(inner)
        try:
            pval = float(parts[-1])
        except ValueError:
            return viol("subquery:unreadable-answer", "%s\n%s" % (nm, text), feat=feats, sample=text)
        key = name if ar == 0 else "%s(%s)" % (name, ",".join(parts[:-1]))
        if abs(val - 1.0) > 1e-9:
            return viol("subquery:wrapper-not-deterministic", "%s has probability %r\n%s" % (nm, val, text), feat=feats, sample=text)
        if key in got and abs(got[key] - pval) > 1e-9:
            return viol("subquery:two-probabilities", "%s bound to both %r and %r\n%s" % (key, got[key], pval, text), feat=feats, sample=text)
        got[key] = pval
    tag = "" if cls in ("clean", "contra") else "|" + cls
    for k, pv in got.items():
        exp = float(R.probs.get(k, 0.0))
        if abs(pv - exp) > 1e-7:
            return viol("subquery:wrong-probability%s" % tag, "subquery binds P = %.10g for %s; top-level %s probability is %.10g\n%s" % (
                pv, k, "conditional" if ev else "", exp, text), feat=feats, sample=text)
    for k, pr in R.probs.items():
        if float(pr) > 1e-9 and k not in got:
            return viol("subquery:missing-answer%s" % tag, "%s has probability %.10g but subquery gives no answer for it\n%s" % (k, float(pr), text),
                        feat=feats, sample=text)
    COUNTERS["answers_compared"] += len(got)
    return ok(nontrivial=R.nchoices >= 2, feat=feats, sample=text, n=max(1, len(got)))


def floors(agg):
    c = agg["counters"]
    return ["monitor %s is zero" % k for k in ("answers_compared", "reach:engine_builtin:_builtin_subquery") if not c.get(k)]
