"""C34 Utility containers behave as their abstract models.

History checker: random / bounded-exhaustive operation sequences on OrderedSet, UHeap, BitVector,
compared step by step with dict/list/set reference models; icontract class invariants on the
real classes check structural consistency after every public call.
"""
import itertools

from ..core import ok, viol, COUNTERS, short_exc

ID = "C34"
LEVEL = "exploration"
NEEDS_DEPS = True
RULE = ("case = operation history (bounded-exhaustive over a small alphabet up to length 4/5, then random up to "
        "length 60) on one of OrderedSet/UHeap/BitVector; every step compared with a reference model; non-trivial = "
        "history with >= 3 mutating operations; distinct by history text")
ASSUMPTIONS = ["OrderedSet & result order and OrderedSet==OrderedSet with equal sets but different order are not fixed "
               "by the property and not asserted", "UHeap ties may pop in any order"]
LEVEL_TEXT = ("Each run drives tens of thousands of operation histories (bounded-exhaustive short ones plus random long ones) "
              "through the real OrderedSet/UHeap/BitVector and compares every step with a reference model while icontract "
              "class invariants watch the internal linked list / heap array / bit blocks; held = no divergence on the histories run.")
LEVEL_NOTE = "Trusts the 3 small reference models (list, dict, set) and icontract; explores histories up to length 60 over <= 8 keys."
TECHNIQUE = "runtime history monitor: step-by-step reference-model comparison + icontract class invariants"
BUDGET = {"quick": 30000, "thorough": 600000}
TIME_BUDGET = {"quick": 120, "thorough": 1500}
CASE_TIMEOUT = 20

_state = {}


class InvariantBroken(Exception):
    pass


def os_linked(self):
    COUNTERS["inv_orderedset"] += 1
    # forward walk, backward walk and map agree
    fwd, cur, n = [], self.end[2], 0
    while cur is not self.end:
        fwd.append(cur[0])
        cur = cur[2]
        n += 1
        if n > len(self.map) + 2:
            return False
    bwd, cur, n = [], self.end[1], 0
    while cur is not self.end:
        bwd.append(cur[0])
        cur = cur[1]
        n += 1
        if n > len(self.map) + 2:
            return False
    return len(fwd) == len(self.map) and fwd == bwd[::-1] and all(k in self.map and self.map[k][0] == k for k in fwd) \
        and len(set(fwd)) == len(fwd)


def heap_ok(self):
    COUNTERS["inv_uheap"] += 1
    h = self._heap
    if len(h) != len(self._index):
        return False
    for i, (k, it) in enumerate(h):
        if self._index.get(it) != i:
            return False
        if i > 0 and h[(i - 1) // 2][0] > k:
            return False
    return True


def bv_ok(self):
    COUNTERS["inv_bitvector"] += 1
    items = list(iter(self))
    return len(items) == len(self) and items == sorted(set(items)) and bool(self) == (len(items) > 0)


_TIER = {}


def prepare(scratch, env, tier):
    _TIER["tier"] = tier


def collect(scratch, recs, counters):
    # thorough tier: the repository's own 273 tests run once more with these contracts switched on
    if _TIER.get("tier") == "thorough":
        from .. import suite
        suite.run_suite("c34", scratch, recs, counters)


def setup_worker(tier):
    import icontract
    import problog.util as U
    _state["OS"] = icontract.invariant(os_linked, error=InvariantBroken)(U.OrderedSet)
    _state["UH"] = icontract.invariant(heap_ok, error=InvariantBroken)(U.UHeap)
    _state["BV"] = icontract.invariant(bv_ok, error=InvariantBroken)(U.BitVector)


# ---------------------------------------------------------------- generation
OS_OPS = ["add", "discard", "pop_last", "pop_first", "contains", "iter", "rev", "len", "or", "and", "sub", "ior",
          "eq", "eqset", "remove", "clear", "isub", "iand"]
UH_OPS = ["push", "push", "pop", "peek", "len", "setprio", "popk"]
BV_OPS = ["add", "contains", "iter", "len", "and", "or", "iand", "ior", "bool"]

_EXH = {}


def _exhaustive(kind, tier):
    """bounded-exhaustive histories over a tiny alphabet"""
    key = (kind, tier)
    if key in _EXH:
        return _EXH[key]
    L = 4 if tier == "quick" else 5
    if kind == "OS":
        alpha = [("add", 0, 1), ("add", 0, 2), ("discard", 0, 1), ("pop_last", 0, 0), ("pop_first", 0, 0),
                 ("add", 1, 2), ("ior", 0, 1), ("add", 0, 3), ("discard", 0, 3)]
    elif kind == "UH":
        alpha = [("push", 1), ("push", 2), ("push", 3), ("pop",), ("setprio", 1, 9), ("setprio", 3, 0), ("setprio", 2, 5)]
    else:
        alpha = [("add", 0, 0), ("add", 0, 31), ("add", 0, 32), ("add", 1, 64), ("iand", 0, 1), ("ior", 0, 1),
                 ("ior", 1, 0), ("add", 1, 0)]
    seqs = []
    for n in range(1, L + 1):
        for s in itertools.product(alpha, repeat=n):
            seqs.append([list(x) for x in s])
    _EXH[key] = seqs
    return seqs


def gen_case(rng, i, tier):
    kind = ["OS", "UH", "BV"][i % 3]
    j = i // 3
    ex = _exhaustive(kind, tier)
    share = 0.4
    nex = int(BUDGET[tier] / 3 * share)
    if j < nex:
        # stride through the exhaustive list so that a prefix of the budget still spreads over lengths
        idx = (j * 7919) % len(ex) if len(ex) > nex else j
        if idx < len(ex):
            return dict(kind=kind, mode="exh", ops=ex[idx] + _observers(kind))
    n = rng.randint(3, 60)
    ops = []
    ks = rng.choice([3, 5, 8])
    for _ in range(n):
        if kind == "OS":
            op = rng.choice(OS_OPS)
            ops.append([op, rng.randrange(3), rng.randrange(3) if op in ("or", "and", "sub", "ior", "eq", "isub", "iand")
                        else rng.randrange(ks)])
        elif kind == "UH":
            op = rng.choice(UH_OPS)
            if op == "setprio":
                ops.append([op, rng.randrange(ks), rng.randrange(-3, 6)])
            else:
                ops.append([op, rng.randrange(ks)])
        else:
            op = rng.choice(BV_OPS)
            v = rng.choice([rng.randrange(0, 8), rng.randrange(28, 36), rng.randrange(60, 70), rng.randrange(0, 200)])
            ops.append([op, rng.randrange(3), v if op in ("add", "contains") else rng.randrange(3)])
    return dict(kind=kind, mode="rnd", ops=ops, usekey=rng.random() < 0.7)


def _observers(kind):
    if kind == "OS":
        return [["iter", 0, 0], ["rev", 0, 0], ["len", 0, 0], ["iter", 1, 0], ["eqset", 0, 0]]
    if kind == "UH":
        return [["len", 0], ["drain", 0]]
    return [["iter", 0, 0], ["len", 0, 0], ["iter", 1, 0], ["bool", 0, 0], ["and", 0, 1], ["or", 0, 1]]


# ---------------------------------------------------------------- execution
def run_case(case):
    kind = case["kind"]
    try:
        r = {"OS": _run_os, "UH": _run_uh, "BV": _run_bv}[kind](case)
    except InvariantBroken as e:
        return viol("invariant:%s" % kind, short_exc(e), sample=case)
    if r is not None:
        return viol("model-mismatch:%s:%s" % (kind, r[0]), r[1], sample=case)
    nmut = sum(1 for o in case["ops"] if o[0] in ("add", "discard", "pop_last", "pop_first", "ior", "push", "pop",
                                                   "setprio", "iand", "remove", "clear", "isub", "popk"))
    COUNTERS["ops_" + kind] += len(case["ops"])
    return ok(nontrivial=nmut >= 3, feat=[kind, case["mode"]])


def _run_os(case):
    OS = _state["OS"]
    real = [OS(), OS(), OS()]
    model = [[], [], []]  # insertion-ordered lists without duplicates

    def madd(m, k):
        if k not in m:
            m.append(k)
    for step, (op, a, b) in enumerate(case["ops"]):
        R, M = real[a], model[a]
        where = "step %d %s" % (step, (op, a, b))
        if op == "add":
            R.add(b)
            madd(M, b)
        elif op == "discard":
            R.discard(b)
            if b in M:
                M.remove(b)
        elif op == "remove":
            try:
                R.remove(b)
                got = "ok"
            except KeyError:
                got = "KeyError"
            exp = "ok" if b in M else "KeyError"
            if b in M:
                M.remove(b)
            if got != exp:
                return ("remove", "%s: got %s expected %s" % (where, got, exp))
        elif op == "clear":
            R.clear()
            del M[:]
        elif op in ("pop_last", "pop_first"):
            last = op == "pop_last"
            if not M:
                try:
                    R.pop(last)
                    return ("pop", where + ": pop on empty set did not raise KeyError")
                except KeyError:
                    pass
            else:
                got = R.pop(last)
                exp = M.pop(-1 if last else 0)
                if got != exp:
                    return ("pop", "%s: got %r expected %r" % (where, got, exp))
        elif op == "contains":
            if (b in R) != (b in M):
                return ("contains", where)
        elif op == "iter":
            if list(R) != M:
                return ("iter", "%s: %r vs model %r" % (where, list(R), M))
        elif op == "rev":
            if list(reversed(R)) != M[::-1]:
                return ("reversed", "%s: %r vs model %r" % (where, list(reversed(R)), M[::-1]))
        elif op == "len":
            if len(R) != len(M):
                return ("len", where)
        elif op in ("or", "and", "sub"):
            R2, M2 = real[b], model[b]
            if op == "or":
                got = R | R2
                exp = M + [x for x in M2 if x not in M]
                if list(got) != exp:
                    return ("or", "%s: %r vs %r" % (where, list(got), exp))
            elif op == "and":
                got = R & R2
                if set(got) != set(M) & set(M2) or len(list(got)) != len(set(got)):
                    return ("and", "%s: %r" % (where, list(got)))
            else:
                got = R - R2
                exp = [x for x in M if x not in M2]
                if list(got) != exp:
                    return ("sub", "%s: %r vs %r" % (where, list(got), exp))
            if list(R) != M or list(R2) != M2:
                return ("binop-mutated-operand", where)
        elif op == "ior":
            R2, M2 = real[b], model[b]
            R |= R2
            real[a] = R
            for x in list(M2):
                madd(M, x)
            if list(R2) != M2:
                return ("ior-mutated-operand", where)
        elif op == "isub":
            R2, M2 = real[b], model[b]
            if a == b:
                continue
            R -= R2
            real[a] = R
            M[:] = [x for x in M if x not in M2]
        elif op == "iand":
            R2, M2 = real[b], model[b]
            if a == b:
                continue
            R &= R2
            real[a] = R
            M[:] = [x for x in M if x in M2]
        elif op == "eq":
            R2, M2 = real[b], model[b]
            got = (R == R2)
            if M == M2 and not got:
                return ("eq", where + ": equal sequences compare unequal")
            if set(M) != set(M2) and got:
                return ("eq", where + ": different sets compare equal")
        elif op == "eqset":
            if not (R == set(M)) or (R == set(M) | {99}):
                return ("eqset", where)
        if list(real[a]) != model[a]:
            return ("state", "%s: after op real=%r model=%r" % (where, list(real[a]), model[a]))
    return None


def _run_uh(case):
    UH = _state["UH"]
    prio = {}
    usekey = case.get("usekey", True)
    keyf = (lambda it: prio.get(it, it)) if usekey else None
    R = UH(key=keyf)
    M = {}  # item -> key at last push

    def mkey(it):
        return prio.get(it, it) if usekey else it
    for step, o in enumerate(case["ops"]):
        op = o[0]
        where = "step %d %s" % (step, o)
        if op == "push":
            it = o[1]
            got = R.push(it)
            exp = it not in M
            M[it] = mkey(it)
            if got != exp:
                return ("push-return", "%s: got %r expected %r" % (where, got, exp))
        elif op == "setprio":
            prio[o[1]] = o[2]
        elif op in ("pop", "popk", "peek"):
            if not M:
                continue
            mn = min(M.values())
            if op == "peek":
                it = R.peek()
                if it not in M or M[it] != mn:
                    return ("peek", "%s: got %r model %r" % (where, it, M))
            elif op == "pop":
                it = R.pop()
                if it not in M or M[it] != mn:
                    return ("pop-order", "%s: got %r (key %r) but min key is %r; model %r" % (where, it, M.get(it), mn, M))
                del M[it]
            else:
                k, it = R.pop_with_key()
                if it not in M or M[it] != mn or k != mn:
                    return ("pop-order", "%s: got %r,%r model %r" % (where, k, it, M))
                del M[it]
        elif op == "len":
            if len(R) != len(M) or bool(R) != bool(M):
                return ("len", "%s: %d vs %d" % (where, len(R), len(M)))
        elif op == "drain":
            prev = None
            while M:
                k, it = R.pop_with_key()
                if it not in M or M[it] != k or k != min(M.values()) or (prev is not None and k < prev):
                    return ("pop-order", "%s: drain got %r,%r model %r" % (where, k, it, M))
                prev = k
                del M[it]
            if len(R) != 0:
                return ("len", where + ": not empty after drain")
        if len(R) != len(M):
            return ("len", "%s: len %d vs model %d" % (where, len(R), len(M)))
    return None


def _run_bv(case):
    BV = _state["BV"]
    real = [BV(), BV(), BV()]
    model = [set(), set(), set()]
    for step, (op, a, b) in enumerate(case["ops"]):
        R, M = real[a], model[a]
        where = "step %d %s" % (step, (op, a, b))
        if op == "add":
            R.add(b)
            M.add(b)
        elif op == "contains":
            if bool(b in R) != (b in M):
                return ("contains", where)
        elif op == "iter":
            if list(R) != sorted(M):
                return ("iter", "%s: %r vs %r" % (where, list(R), sorted(M)))
        elif op == "len":
            if len(R) != len(M):
                return ("len", "%s: %d vs %d" % (where, len(R), len(M)))
        elif op == "bool":
            if bool(R) != bool(M):
                return ("bool", where)
        elif op in ("and", "or"):
            R2, M2 = real[b], model[b]
            got = (R & R2) if op == "and" else (R | R2)
            exp = (M & M2) if op == "and" else (M | M2)
            if sorted(got) != sorted(exp) or len(got) != len(exp) or any(x not in got for x in exp):
                return (op, "%s: %r vs %r" % (where, list(got), sorted(exp)))
            if list(R) != sorted(M) or list(R2) != sorted(M2):
                return ("binop-mutated-operand", where)
            # result must be independent of operands
            got.add(150)
            if list(R) != sorted(M) or list(R2) != sorted(M2):
                return ("binop-aliases-operand", where)
        elif op in ("iand", "ior"):
            R2, M2 = real[b], model[b]
            if op == "iand":
                R &= R2
                newm = M & M2
            else:
                R |= R2
                newm = M | M2
            real[a] = R
            model[a] = set(newm)
            if a != b and list(R2) != sorted(M2):
                return ("iop-mutated-operand", where)
        if list(real[a]) != sorted(model[a]):
            return ("state", "%s: real=%r model=%r" % (where, list(real[a]), sorted(model[a])))
    return None


def floors(agg):
    c = agg["counters"]
    out = []
    for k in ("inv_orderedset", "inv_uheap", "inv_bitvector"):
        if c.get(k, 0) == 0:
            out.append("contract %s never evaluated" % k)
    return out
