"""C01 Exact inference computes the distribution semantics (reference-model monitor)."""
import os
import tempfile

from ..core import ok, viol, skip, COUNTERS
from ..gen import prog as G
from ..ref import worlds
from .. import sut, judge, instrument

ID = "C01"
LEVEL = "exploration"
RULE = ("case = generated program of the C01 fragment (probabilistic facts incl. duplicates and p in {0,1}, ADs with/without "
        "bodies, probabilistic rules, stratified negation, positive recursion, ground/non-ground queries, evidence on facts "
        "and derived atoms) evaluated through get_evaluatable(None|'ddnnf') / the probability CLI and compared with an "
        "independent possible-world enumerator; non-trivial = >= 2 relevant choices (>= 4 worlds) and at least one of "
        "{AD with body, recursion, negation, evidence on derived atom, non-ground query}; distinct by program text")
ASSUMPTIONS = ["reference semantics: one independent choice per ground instance of all variables of a probabilistic clause",
               "domain <= 3 constants, arity <= 2, <= 2^10 (quick) / 2^14 (thorough) relevant worlds",
               "tolerance 1e-9 absolute+relative; evidence probabilities are exactly 0 or >= 1e-6 by construction"]
LEVEL_TEXT = ("Thousands of generated programs per run are executed by the real pipeline and every reported number, the reported "
              "instance set and the inconsistent-evidence decision are compared with exact rational possible-world enumeration "
              "over a harness-owned AST; reach counters prove that cycle detection, AD constraints, cycle breaking and evidence "
              "normalisation were exercised. Exploration, not proof: held on the programs generated.")
LEVEL_NOTE = ("Trusts pbmon/ref/worlds.py (naive grounder + alternating-fixpoint well-founded model, ~250 lines) and the "
              "generator's feature classifier; known engine crashes on the non-clean input class are listed in known_findings.json.")
TECHNIQUE = "runtime reference-model monitor (possible-world enumerator) over generated programs + sys.monitoring reach counters"
BUDGET = {"quick": 3000, "thorough": 40000}
TIME_BUDGET = {"quick": 200, "thorough": 3000}
CASE_TIMEOUT = 12
WATCHDOG_FRACTION = 0.03

WATCH = {
    "eval_nodes.py": ["EvalDefine.cycleDetected", "EvalDefine.closeCycle", "EvalNot.createCycle", "EvalDefine.complete"],
    "constraint.py": ["ConstraintAD.update_weights", "ConstraintAD.add"],
    "cycles.py": ["_break_cycles", "break_cycles"],
    "cnf_formula.py": ["clarks_completion"],
    "ddnnf_formula.py": ["_compile", "_load_nnf", "SimpleDDNNFEvaluator.evaluate_evidence"],
    "engine_stack.py": ["StackBasedEngine.checkCycle", "DefineCache.__setitem__"],
}


def setup_worker(tier):
    instrument.reach_install(WATCH)


def max_worlds(tier):
    return 1 << 10 if tier == "quick" else 1 << 14


def gen_case(rng, i, tier):
    p = G.gen(rng, stratified=True)
    if i % 8 == 3:
        p = G.add_tautologies(rng, p)
    mode = ["api_default", "api_ddnnf", "api_default", "api_ddnnf", "api_default", "cli"][i % 6]
    return dict(prog=p, mode=mode, tier=tier, disj=(i % 5 == 2))


def run_sut(case, text):
    mode = case["mode"]
    if mode == "cli":
        from problog.tasks import probability
        fd, fn = tempfile.mkstemp(suffix=".pl")
        with os.fdopen(fd, "w") as f:
            f.write(text)
        try:
            succ, res = probability.main_result([fn])
        finally:
            os.unlink(fn)
        COUNTERS["cli_runs"] += 1
        if succ:
            return dict(kind="ok", result={str(k): v for k, v in res.items()})
        return sut.outcome_of_exception(res)
    return sut.evaluate_text(text, backend=None if mode == "api_default" else "ddnnf")


def run_case(case):
    prog = case["prog"]
    F = G.features(prog)
    feats = G.feat_list(F)
    R = worlds.reference(prog, max_worlds=max_worlds(case.get("tier", "quick")), cyc_preds=G.cyclic_preds(prog))
    if R.status == "too_big":
        return skip("reference too big", feats)
    F = G.refine_with_reference(F, R)
    feats = G.feat_list(F)
    text = G.to_text(prog, disj=case.get("disj", False))
    o = run_sut(case, text)
    COUNTERS["sut_" + o["kind"]] += 1
    if R.status == "inconsistent":
        COUNTERS["ref_inconsistent"] += 1
    v = judge.judge(o, R, F, propagate=(case["mode"] == "cli"))
    nt = R.nchoices >= 2 and any(F[k] for k in ("has_ad_body", "rec", "has_neg", "evidence_derived", "nonground_query"))
    feats.append("mode:" + case["mode"])
    feats.append("worlds>=32" if R.nworlds >= 32 else "worlds<32")
    if v is not None:
        return viol(v[0], v[1] + "\n" + text, nontrivial=nt, feat=feats, sample=text)
    return ok(nontrivial=nt, feat=feats, sample=text, key=str(hash(text)))


def floors(agg):
    out = []
    n = max(1, agg["status"]["ok"] + agg["status"]["viol"])
    fh = agg["feats"]
    for k in ("has_ad_body", "rec", "has_neg", "evidence_derived", "nonground_query"):
        if fh.get(k, 0) < 0.05 * n:
            out.append("feature %s in fewer than 5%% of cases" % k)
    c = agg["counters"]
    for k in ("reach:eval_nodes:EvalDefine.cycleDetected", "reach:constraint:ConstraintAD.update_weights",
              "reach:cycles:_break_cycles", "ref_inconsistent"):
        if c.get(k, 0) == 0:
            out.append("monitor %s never reached" % k)
    return out
