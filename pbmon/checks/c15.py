"""C15 Term comparison and sort/2 follow the standard order of terms."""
import itertools

from ..core import ok, viol, COUNTERS
from ..gen import terms as T
from ..ref import order
from .. import sut

ID = "C15"
LEVEL = "exploration"
RULE = ("case = batch of ground term pairs / triples / lists over ints (multi-digit, negative), floats, quoted and unquoted "
        "atoms, f/1 g/2 compounds and lists (bounded-exhaustive pairs over a 40-term universe, then random terms of depth "
        "<= 3); compare/3, ==, \\==, @<, @=<, @>, @>= and sort/2 run by the real engine and compared with a reference "
        "comparator; order laws audited on ProbLog's own answers; non-trivial = batch containing a same-class pair of "
        "different terms; distinct by batch content")
ASSUMPTIONS = ["no SWI/YAP binary in the sandbox: the reference is the order exactly as the property states it",
               "strings are not ranked against other classes (pairs mixing strings and non-strings are skipped)"]
LEVEL_TEXT = ("Every comparison predicate and sort/2 is executed by the real engine on bounded-exhaustive and random ground terms "
              "and judged by an independent comparator plus antisymmetry/transitivity audits on the observed answers.")
LEVEL_NOTE = "Trusts pbmon/ref/order.py (35 lines). Exploration over a finite term universe; not a proof for all terms."
TECHNIQUE = "runtime reference-model monitor (standard-order comparator) + order-law audit over observed answers"
BUDGET = {"quick": 1600, "thorough": 40000}
TIME_BUDGET = {"quick": 150, "thorough": 2400}
CASE_TIMEOUT = 60

OPS = [("@<", lambda c: c < 0), ("@=<", lambda c: c <= 0), ("@>", lambda c: c > 0), ("@>=", lambda c: c >= 0),
       ("==", lambda c: c == 0), ("\\==", lambda c: c != 0)]
SYM = {-1: "<", 0: "=", 1: ">"}

_U = None


def universe():
    global _U
    if _U is None:
        base = T.leaves(ground=True)
        comp = [["c", "f", [x]] for x in base[:4] + base[7:9] + base[11:14]] + \
               [["c", "g", [x, y]] for x in base[:2] + base[11:12] for y in base[1:3]] + \
               [["c", "a", [base[0]]], ["l", [base[1], base[2]], None], ["l", [base[3]], None],
                ["c", "f", [["c", "f", [base[2]]]]], ["c", "f", [["c", "f", [base[3]]]]]]
        _U = base + comp
    return _U


PAIRS_PER_CASE = 30


def gen_case(rng, i, tier):
    U = universe()
    npairs = len(U) * len(U)
    nex = (npairs + PAIRS_PER_CASE - 1) // PAIRS_PER_CASE
    share = min(nex, int(BUDGET[tier] * 0.5))
    if i < share:
        # stride so that any prefix of the budget samples the whole square
        idxs = [((i + k * share) * 1) % npairs for k in range(PAIRS_PER_CASE) if i + k * share < npairs]
        return dict(mode="exh", pairs=[[U[j // len(U)], U[j % len(U)]] for j in idxs])
    mode = rng.choice(["pairs", "triples", "sort", "sort"])
    if mode == "pairs":
        ps = []
        for _ in range(PAIRS_PER_CASE):
            a = T.rand_term(rng, 3, ground=True)
            b = mutate(rng, a) if rng.random() < 0.5 else T.rand_term(rng, 3, ground=True)
            ps.append([a, b])
        return dict(mode="pairs", pairs=ps)
    if mode == "triples":
        return dict(mode="triples", triples=[[T.rand_term(rng, 2, ground=True, small=True) for _ in range(3)] for _ in range(8)])
    return dict(mode="sort", lists=[[T.rand_term(rng, rng.choice([0, 0, 1, 2]), ground=True, small=rng.random() < 0.5)
                                     for _ in range(rng.randint(0, 7))] for _ in range(12)])


def mutate(rng, t):
    """a term that differs from t in one leaf (so that comparison has to look deep)"""
    if t[0] == "c" and t[2]:
        k = rng.randrange(len(t[2]))
        return ["c", t[1], [mutate(rng, a) if j == k else a for j, a in enumerate(t[2])]]
    if t[0] == "l" and t[1]:
        k = rng.randrange(len(t[1]))
        return ["l", [mutate(rng, a) if j == k else a for j, a in enumerate(t[1])], t[2]]
    if t[0] == "i":
        return rng.choice([["i", t[1] + rng.choice([-1, 1, 9, -11])], ["f", float(t[1])]])
    if t[0] == "f":
        return rng.choice([["f", t[1] + 0.5], ["i", int(t[1])]])
    return T.rand_term(rng, 0, ground=True)


def tcls(t):
    return {"i": "int", "f": "float", "a": "atom", "s": "str", "c": "cmp", "l": "cmp"}[t[0]]


def check_pairs(pairs):
    goals, meta = [], []
    for a, b in pairs:
        ta, tb = T.tup(a), T.tup(b)
        if order.has_string(ta) != order.has_string(tb):
            continue
        exp = order.cmp(ta, tb)
        A, B = T.txt(a), T.txt(b)
        goals.append("compare(R1,%s,%s)" % (A, B))
        meta.append(("compare", a, b, exp))
        for op, f in OPS:
            goals.append("%s %s %s, R1 = y" % (A, op, B))
            meta.append((op, a, b, f(exp)))
    res = sut.run_goals(goals)
    n = 0
    for (op, a, b, exp), r in zip(meta, res):
        n += 1
        pair_cls = "%s-%s" % tuple(sorted([tcls(a), tcls(b)]))
        if isinstance(r, dict):
            return n, ("order:%s:error:%s" % (op, r["exc"]), "%s on %s , %s raised %s" % (op, T.txt(a), T.txt(b), sut.describe(r)))
        if op == "compare":
            got = [T.unquote(str(x[0])) for x in r]
            if got != [SYM[exp]]:
                return n, ("order:compare:%s" % pair_cls, "compare(O,%s,%s) gave %r, standard order says %r" % (
                    T.txt(a), T.txt(b), got, SYM[exp]))
        else:
            got = len(r) > 0
            if got != exp or len(r) > 1:
                return n, ("order:%s:%s" % (op, pair_cls), "%s %s %s %s but the standard order says it should %s" % (
                    T.txt(a), op, T.txt(b), "succeeds" if got else "fails", "succeed" if exp else "fail"))
    return n, None


def check_triples(triples):
    n = 0
    for tr in triples:
        if len({order.has_string(T.tup(x)) for x in tr}) > 1:
            continue
        goals = ["compare(R1,%s,%s)" % (T.txt(x), T.txt(y)) for x, y in itertools.product(tr, repeat=2)]
        res = sut.run_goals(goals)
        c = {}
        for (ix, iy), r in zip(itertools.product(range(3), repeat=2), res):
            n += 1
            if isinstance(r, dict) or len(r) != 1:
                return n, ("order:law:totality", "compare(O,%s,%s) did not give exactly one answer: %r" % (
                    T.txt(tr[ix]), T.txt(tr[iy]), r if isinstance(r, dict) else [str(x[0]) for x in r]))
            c[ix, iy] = {"<": -1, "=": 0, ">": 1}.get(T.unquote(str(r[0][0])))
        for x in range(3):
            if c[x, x] != 0:
                return n, ("order:law:reflexive", "compare(O,T,T) is not '=' for %s" % T.txt(tr[x]))
            for y in range(3):
                if c[x, y] != -c[y, x]:
                    return n, ("order:law:antisymmetry", "compare gives %r for (%s,%s) and %r for the swapped pair" % (
                        c[x, y], T.txt(tr[x]), T.txt(tr[y]), c[y, x]))
                for z in range(3):
                    if c[x, y] <= 0 and c[y, z] <= 0 and c[x, z] > 0:
                        return n, ("order:law:transitivity", "%s =< %s =< %s but compare(first,last) = '>'" % (
                            T.txt(tr[x]), T.txt(tr[y]), T.txt(tr[z])))
    return n, None


def check_sorts(lists):
    goals = ["sort(%s, R1)" % T.txt(["l", l, None] if l else ["a", "[]"]) for l in lists]
    res = sut.run_goals(goals)
    n = 0
    for l, r in zip(lists, res):
        if any(order.has_string(T.tup(x)) for x in l) and not all(order.has_string(T.tup(x)) for x in l):
            continue
        n += 1
        src = "sort(%s,S)" % T.txt(["l", l, None] if l else ["a", "[]"])
        if isinstance(r, dict):
            return n, ("order:sort:error:%s" % r["exc"], "%s raised %s" % (src, sut.describe(r)))
        if len(r) != 1:
            return n, ("order:sort:answers", "%s gave %d answers" % (src, len(r)))
        got = T.tup(T.from_pl(r[0][0]))
        items = []
        while got[0] == "c" and got[1] == "." and len(got[2]) == 2:
            items.append(got[2][0])
            got = got[2][1]
        if got != ("a", "[]"):
            return n, ("order:sort:shape", "%s result is not a proper list" % src)
        exp = []
        for x in sorted({T.tup(e) for e in l}, key=_Key):
            exp.append(x)
        if items != exp:
            kinds = sorted({tcls(e) for e in l})
            asc = all(order.cmp(items[k], items[k + 1]) < 0 for k in range(len(items) - 1))
            why = "not strictly ascending" if not asc else "element set differs"
            return n, ("order:sort:%s" % ("ascending" if not asc else "elements"), "%s gave %s (%s), expected %s; element classes %s" % (
                src, [_show(x) for x in items], why, [_show(x) for x in exp], kinds))
    return n, None


class _Key(object):
    def __init__(self, t):
        self.t = t

    def __lt__(self, o):
        return order.cmp(self.t, o.t) < 0


def _show(t):
    if t[0] == "c":
        return "%s(%s)" % (t[1], ",".join(_show(a) for a in t[2]))
    return repr(t[1]) if t[0] in ("f", "s") else str(t[1])


def run_case(case):
    if case["mode"] in ("exh", "pairs"):
        n, v = check_pairs(case["pairs"])
        nt = any(tcls(a) == tcls(b) and a != b for a, b in case["pairs"])
        sample = [[T.txt(a), T.txt(b)] for a, b in case["pairs"][:3]]
    elif case["mode"] == "triples":
        n, v = check_triples(case["triples"])
        nt = True
        sample = [[T.txt(x) for x in t] for t in case["triples"][:2]]
    else:
        n, v = check_sorts(case["lists"])
        nt = any(len(l) >= 3 for l in case["lists"])
        sample = [[T.txt(x) for x in l] for l in case["lists"][:2]]
    COUNTERS["comparisons_" + case["mode"]] += n
    if v is not None:
        return viol(v[0], v[1], nontrivial=nt, feat=[case["mode"]], sample=sample, n=max(n, 1))
    return ok(nontrivial=nt, feat=[case["mode"]], sample=sample, n=max(n, 1))


def floors(agg):
    c = agg["counters"]
    return ["no %s evaluated" % k for k in ("comparisons_exh", "comparisons_sort", "comparisons_triples") if not c.get(k)]
