"""C22 Sampling draws from the program's distribution."""
import contextlib
import io
import math
import random
import re
from fractions import Fraction as F

from ..core import ok, viol, skip, inc, COUNTERS, short_exc, frame_sig
from ..gen import prog as G
from ..ref import worlds, cond
from .. import sut, judge

ID = "C22"
LEVEL = "exploration"
RULE = ("case = generated program (probabilistic facts, ADs with and without bodies, probabilistic rules, stratified negation, "
        "positive recursion, 0-2 evidence atoms) sampled N times with a fixed seed through problog.tasks.sample.sample() "
        "(str+probability / dict format, propagate_evidence off and on) or estimate(); every SampledFormula is recorded "
        "(each random choice, the verdict of verify_evidence, the yielded sample) and checked per sample against a three-valued "
        "reference (choices made => query values, evidence holds / rejected samples contradict the evidence, printed probability = "
        "product of the choices, AD heads exclusive); statistically: every query frequency within the Hoeffding band "
        "(false-alarm < 1e-9 per run) of the reference conditional probability, and the stream of individual choices within an "
        "Azuma band of its conditional expectation; non-trivial = >= 2 relevant choices; distinct by program text + mode")
ASSUMPTIONS = ["a choice pre-set by evidence propagation counts as probability 1 in the printed product",
               "Hoeffding / Azuma bands at delta = 1e-9 per run: a correct sampler alarms with probability < 1e-9 per run",
               "continuous distributions and sample/2, previous/2 builtins are outside the property's generated-program domain"]
LEVEL_TEXT = ("Every sample the real sampler produces is replayed against an independent three-valued possible-world reference, and "
              "frequencies over thousands of samples are tested against exact conditional probabilities.")
LEVEL_NOTE = "Statistical part detects biases larger than the band width (about 0.05 at the quick tier, 0.025 at the thorough tier) only."
TECHNIQUE = "runtime trace monitor on SampledFormula.add_atom/verify_evidence + reference-model oracle per sample + Hoeffding/Azuma tests"
BUDGET = {"quick": 96, "thorough": 220}
TIME_BUDGET = {"quick": 240, "thorough": 3300}
CASE_TIMEOUT = 150
WATCHDOG_FRACTION = 0.1
NSAMPLES = {"quick": 2500, "thorough": 12000}
DELTA = 1e-9
MAX_CONSEC_REJECT = 3000

_ST = {}


class RejectionBudget(BaseException):
    pass


def setup_worker(tier):
    from problog.tasks import sample as S
    _ST["S"] = S
    _ST["logs"] = []
    _ST["consec"] = 0
    orig_init = S.SampledFormula.__init__
    orig_add = S.SampledFormula.add_atom
    orig_verify = S.verify_evidence
    orig_ground = S.ground

    def init(self, **kw):
        orig_init(self, **kw)
        rec = dict(events=[], verdict=None, phase="preseed", target=self)
        self._pbmon = rec
        _ST["logs"].append(rec)
        COUNTERS["hook:SampledFormula.__init__"] += 1

    def add_atom(self, identifier, probability, group=None, name=None, source=None, cr_extra=True, is_extra=False):
        rec = getattr(self, "_pbmon", None)
        new = rec is not None and probability is not None and identifier not in self.facts
        r = orig_add(self, identifier, probability, group, name, source, cr_extra, is_extra)
        if new:
            rec["events"].append((identifier, probability, group, r, rec["phase"]))
        return r

    def ground(engine, db, target):
        rec = getattr(target, "_pbmon", None)
        if rec is not None:
            rec["phase"] = "ground"
        return orig_ground(engine, db, target)

    def verify(engine, db, ev_target, q_target):
        rec = getattr(q_target, "_pbmon", None)
        if rec is not None:
            rec["phase"] = "verify"
        v = orig_verify(engine, db, ev_target, q_target)
        COUNTERS["hook:verify_evidence"] += 1
        if rec is not None:
            rec["verdict"] = bool(v)
        if v:
            _ST["consec"] = 0
        else:
            _ST["consec"] += 1
            if _ST["consec"] > MAX_CONSEC_REJECT:
                raise RejectionBudget()
        return v
    S.SampledFormula.__init__ = init
    S.SampledFormula.add_atom = add_atom
    S.verify_evidence = verify
    S.ground = ground


def gen_case(rng, i, tier):
    mode = rng.choice(["mixed"] * 5 + ["prop"] * 3 + ["graph"] * 1)
    p = G.gen(rng, stratified=True, allow_cycles=rng.random() < 0.5, mode=mode, n_evidence=rng.choice([0, 1, 1, 2]), extremes=0.04)
    if rng.random() < 0.5:
        # an extra AD with three heads and evidence / queries on its heads: sequential AD sampling
        L = G.L
        ps = rng.choice(G.AD3_PAL)
        p["clauses"].append(["ad", [[ps[0], L("h0")], [ps[1], L("h1")], [ps[2], L("h2")]], []])
        p["clauses"].append(["rule", None, L("hq"), [L(rng.choice(["h1", "h2"]))]])
        p["queries"] += [L("h0"), L("h2"), L("hq")]
        if rng.random() < 0.4:
            p["evidence"].append([L(rng.choice(["h0", "h1"])), False])
    how = ["str", "dict", "str_prop", "dict_prop", "estimate", "str"][i % 6]
    return dict(prog=p, how=how, seed=rng.randrange(1 << 30), n=NSAMPLES[tier])


def build_maps(prog, text):
    """SUT identifier -> reference group: node ids / choice groups of the compiled database are aligned, in program order,
    with the probabilistic clauses of the harness AST."""
    from problog.engine import DefaultEngine
    from problog.program import PrologString
    db = DefaultEngine().prepare(PrologString(text))
    mine = []
    for ci, c in enumerate(prog["clauses"]):
        if c[0] == "fact":
            mine.append(("fact", ci))
        elif c[0] == "rule" and c[1] is not None:
            if not c[3]:
                if any(G.isvar(a) for a in c[2][1]):
                    return None
                mine.append(("fact0", ci))
            else:
                mine.append(("group", ci))
        elif c[0] == "ad":
            mine.append(("group", ci))
    theirs = []
    seen = set()
    for idx in range(len(db)):
        node = db.get_node(idx)
        t = type(node).__name__
        if t == "fact" and node.probability is not None:
            theirs.append(("fact", idx))
        elif t == "choice":
            if node.group not in seen:
                seen.add(node.group)
                theirs.append(("group", node.group))
    if len(mine) != len(theirs):
        return None
    facts, groups = {}, {}
    for (mk, ci), (tk, ident) in zip(mine, theirs):
        if mk == "fact" and tk == "fact":
            facts[ident] = ("c", ci)
        elif mk == "fact0" and tk == "fact":
            facts[ident] = ("c", ci, ())
        elif mk == "group" and tk == "group":
            groups[ident] = ci
        else:
            return None
    return facts, groups


def to_group(maps, identifier):
    """-> (group key, option index >= 1) or None"""
    facts, groups = maps
    if isinstance(identifier, int):
        g = facts.get(identifier)
        return None if g is None else (g, 1)
    if isinstance(identifier, tuple) and len(identifier) == 3 and identifier[0] in groups:
        try:
            vals = tuple(int(x) for x in identifier[1])
        except Exception:  # noqa
            return None
        return ("c", groups[identifier[0]], vals), int(identifier[2]) + 1
    return None


class Stream(object):
    """sum of (outcome - conditional expectation) over a stream of binary choices (Azuma-Hoeffding)"""

    def __init__(self):
        self.n = 0
        self.s = 0.0

    def add(self, outcome, p):
        self.n += 1
        self.s += (1.0 if outcome else 0.0) - p

    def bad(self, delta):
        return self.n > 0 and abs(self.s) > math.sqrt(2.0 * self.n * math.log(2.0 / delta))


def analyse(rec, C, maps, prop, streams, flags):
    """-> (assign, expected product, problems[]) for one SampledFormula log"""
    S = _ST["S"]
    target = rec["target"]
    assign = {}
    product = F(1)
    state = {}   # group -> dict(rejected=set, chosen=None, forced=False)
    problems = []
    for identifier, probability, group, result, phase in rec["events"]:
        gk = to_group(maps, identifier)
        if gk is None:
            if phase == "preseed":
                COUNTERS["preseed:non-atom-node"] += 1
                continue
            problems.append(("unmapped-choice", "add_atom(%r) does not correspond to a probabilistic clause instance" % (identifier,)))
            continue
        g, k = gk
        if g not in C.groups:
            problems.append(("unmapped-choice", "choice group %r has no ground instance in the reference" % (g,)))
            continue
        value = target.is_true(result)
        if not value and not target.is_false(result):
            problems.append(("non-boolean-choice", "add_atom(%r) returned %r" % (identifier, result)))
            continue
        p = F(C.groups[g][k])
        forced = phase == "preseed"
        st = state.setdefault(g, dict(rejected=set(), chosen=None, forced=False, mass=F(0), fopts=set()))
        if forced:
            st["forced"] = True
            st["fopts"].add(k)
            flags.add("forced-choice")
            if len(C.groups[g]) > 2:
                flags.add("ad-head-forced")
            COUNTERS["forced_choices"] += 1
        else:
            try:
                given = F(str(float(probability)))
            except Exception:  # noqa
                given = None
            if given is None or abs(given - p) > F(1, 10 ** 9):
                problems.append(("wrong-choice-probability", "add_atom(%r) was given probability %s, the program says %s" % (
                    identifier, probability, p)))
        if st["chosen"] is not None:
            if value:
                problems.append(("ad-not-exclusive", "two heads of the same annotated disjunction instance %r are true in one sample" % (g,)))
            st["rejected"].add(k)
            continue
        if not forced and not st["forced"]:
            rem = 1 - st["mass"]
            pc = float(p / rem) if rem > 0 else 0.0
            pc = min(1.0, max(0.0, pc))
            kind = "fact" if len(C.groups[g]) == 2 else ("ad_first" if not st["rejected"] else "ad_later")
            streams[kind].add(value, pc)
            COUNTERS["choices:%s" % kind] += 1
        if value:
            st["chosen"] = k
        else:
            st["rejected"].add(k)
            if not forced:
                st["mass"] += p
    for g, st in state.items():
        if st["chosen"] is not None:
            assign[g] = ("chosen", st["chosen"])
            if st["chosen"] not in st["fopts"]:
                product *= F(C.groups[g][st["chosen"]])
        else:
            assign[g] = ("rejected", frozenset(st["rejected"]))
            product *= 1 - st["mass"]
    return assign, product, problems


PROB_RE = re.compile(r"^% Probability: (\S+)$")


def run_case(case):
    from problog.program import PrologString
    S = _ST["S"]
    prog = case["prog"]
    how = case["how"]
    prop = how.endswith("_prop")
    fmt = how.split("_")[0]
    text = G.to_text(prog, evidence_style=case["seed"] % 3)
    Fe = G.features(prog)
    R = worlds.reference(prog, max_worlds=1 << 12, cyc_preds=G.cyclic_preds(prog))
    if R.status == "too_big":
        return skip("reference too big")
    Fe = G.refine_with_reference(Fe, R)
    cls = judge.input_class(Fe, propagate=prop)
    feats = G.feat_list(Fe) + [how]
    # propagate mode evaluates the evidence on the (cyclic) ground formula of the evidence without cycle breaking
    evcyc = "|ev-cyclic" if (prop and Fe.get("ev_reaches_cycle")) else ""
    if R.status == "inconsistent" or R.pe < F(1, 20):
        return skip("evidence too unlikely for rejection sampling")
    if R.query_undefined or R.any_undefined:
        return skip("not two-valued")
    try:
        maps = build_maps(prog, text)
    except Exception as e:  # noqa
        return skip("database for the identifier map could not be built: %s" % short_exc(e))
    if maps is None:
        COUNTERS["skip:identifier-map"] += 1
        return skip("identifier map")
    C = cond.Cond(prog)
    n = case["n"]
    random.seed(case["seed"])
    _ST["logs"][:] = []
    _ST["consec"] = 0
    streams = dict(fact=Stream(), ad_first=Stream(), ad_later=Stream())
    flags = set()
    counts = {q: 0 for q in R.probs}
    accepted = rejected = 0
    viols = []

    def add(sig, detail):
        if not any(s == sig for s, _ in viols):
            viols.append([sig, detail + "\n--- mode=%s seed=%s\n%s" % (how, case["seed"], text)])

    def check_log(rec, yielded):
        nonlocal accepted, rejected
        assign, product, problems = analyse(rec, C, maps, prop, streams, flags)
        for s, d in problems:
            add("sample:" + s, d)
        qv, ev = C.evaluate(assign)
        if rec["verdict"]:
            accepted += 1
            for (ea, want), got in zip(C.eatoms, ev):
                if got is None:
                    flags.add("evidence-undetermined-accepted")
                    COUNTERS["accepted_with_undetermined_evidence"] += 1
                elif got != want:
                    add("sample:evidence-violated" + ("|propagate" if prop else ""),
                        "an accepted sample makes evidence atom %s %s; choices %r" % (worlds.aname(ea), got, sorted(assign.items(), key=repr)))
            return qv, product
        rejected += 1
        COUNTERS["rejected_samples"] += 1
        if not prop:
            if not any(got is not None and got != want for (ea, want), got in zip(C.eatoms, ev)):
                add("sample:rejected-consistent-sample", "a sample was rejected although its choices %r do not contradict the evidence (%r)" % (
                    sorted(assign.items(), key=repr), ev))
        else:
            if any(got is None for got in ev):
                flags.add("evidence-undetermined-rejected")
                COUNTERS["rejected_with_undetermined_evidence"] += 1
            # with propagation a sample may only be rejected when the evidence cannot hold any more
            if all(got is not None and got == want for (ea, want), got in zip(C.eatoms, ev)) and C.eatoms:
                add("sample:rejected-consistent-sample|propagate" + evcyc, "a sample was rejected although its choices %r satisfy the evidence" % (
                    sorted(assign.items(), key=repr),))
        return None, None

    est = None
    try:
        if fmt == "estimate":
            buf = io.StringIO()
            with contextlib.redirect_stdout(buf):
                est = S.estimate(PrologString(text), n=n, propagate_evidence=False)
            for rec in _ST["logs"]:
                qv, _p = check_log(rec, None)
                if qv is not None:
                    for q, v in qv.items():
                        if v is None:
                            add("sample:query-undetermined", "query %s is not determined by the choices of the sample" % q)
                        elif v:
                            counts[q] += 1
        else:
            kw = dict(with_probability=True) if fmt == "str" else {}
            gen = S.sample(PrologString(text), n=n, format=fmt, propagate_evidence=prop, **kw)
            pos = 0
            for s in gen:
                logs = _ST["logs"]
                for rec in logs[pos:-1]:
                    if rec["verdict"]:
                        add("harness:two-accepted-logs", "internal")
                    check_log(rec, None)
                rec = logs[-1]
                pos = len(logs)
                if not rec["verdict"]:
                    add("sample:yielded-unverified-sample", "a sample was yielded whose verify_evidence verdict was %r" % (rec["verdict"],))
                    continue
                qv, product = check_log(rec, s)
                if fmt == "str":
                    lines = [l for l in s.split("\n") if l.strip()]
                    got_true = set()
                    printed = None
                    for l in lines:
                        m = PROB_RE.match(l)
                        if m:
                            printed = float(m.group(1))
                        elif l.endswith("."):
                            got_true.add(l[:-1].replace(" ", ""))
                    got = {q: (q in got_true) for q in qv}
                    for q in got_true:
                        if q not in qv:
                            add("sample:unknown-query-atom", "the sample lists %s, which is not an instance of a query" % q)
                    if printed is None:
                        add("sample:no-probability-line", "with_probability=True printed no probability: %r" % s)
                    elif abs(printed - float(product)) > 1e-6 * max(float(product), 1e-12) + 1e-12:
                        add("sample:wrong-probability" + ("|propagate" if prop else ""),
                            "printed probability %r, product of the recorded choices %s (= %.10g); choices %r" % (
                                printed, product, float(product), [(e[0], str(e[1]), e[3]) for e in rec["events"]]))
                    else:
                        COUNTERS["probability_lines_checked"] += 1
                else:
                    # a non-ground query without any answer is reported under its non-ground name with value False
                    got = {str(k).replace(" ", ""): bool(v) for k, v in s.items() if k.is_ground() or v}
                    for q in got:
                        if q not in qv:
                            add("sample:unknown-query-atom", "the sample lists %s, which is not an instance of a query" % q)
                    got = {q: got.get(q, False) for q in qv}
                for q, v in qv.items():
                    if v is None:
                        add("sample:query-undetermined", "query %s is not determined by the choices of the sample" % q)
                    elif v != got[q]:
                        add("sample:wrong-query-value" + ("|propagate" if prop else ""),
                            "the sample reports %s=%s, its recorded choices imply %s; choices %r" % (q, got[q], v, [
                                (e[0], str(e[1]), e[3]) for e in rec["events"]]))
                    if got[q]:
                        counts[q] += 1
                COUNTERS["samples_checked"] += 1
    except RejectionBudget:
        sig = "endless-rejection" + ("|propagate" if prop else "") + evcyc
        return viol(sig, "%d consecutive samples rejected although P(evidence) = %s\n--- mode=%s seed=%s\n%s" % (
            MAX_CONSEC_REJECT, R.pe, how, case["seed"], text), feat=feats, sample=text, extra_viols=viols)
    except Exception as e:  # noqa
        o = sut.outcome_of_exception(e)
        sig = "sampler-raised:%s|%s" % (o.get("sig", o["kind"]), cls)
        return viol(sig, "%s\n--- mode=%s seed=%s\n%s" % (short_exc(e), how, case["seed"], text), feat=feats, sample=text, extra_viols=viols)
    finally:
        for rec in _ST["logs"]:
            rec["target"] = None
        _ST["logs"][:] = []
    # ---- statistical part
    nq = max(1, len(R.probs))
    eps = math.sqrt(math.log(2.0 * nq / DELTA) / (2.0 * max(accepted, 1)))
    suffix = ""
    PFLAGS = ("evidence-undetermined-accepted", "evidence-undetermined-rejected", "ad-head-forced")
    if prop and any(f in flags for f in PFLAGS):
        suffix = "|propagate:" + "+".join(sorted(f for f in flags if f in PFLAGS))
    elif prop:
        suffix = "|propagate"
    suffix += evcyc
    if accepted:
        for q, pr in R.probs.items():
            if fmt == "estimate":
                fr = float(est.get(_find_key(est, q), 0.0)) if est is not None else 0.0
                if abs(fr - counts[q] / float(accepted)) > 1e-9:
                    add("estimate:not-the-sample-frequency", "estimate(%s) = %r but %d of %d accepted samples made it true" % (
                        q, fr, counts[q], accepted))
            else:
                fr = counts[q] / float(accepted)
            if abs(fr - float(pr)) > eps:
                add("frequency-outside-hoeffding-band" + suffix,
                    "query %s: frequency %.4f over %d accepted samples, reference P = %.4f, band %.4f" % (q, fr, accepted, float(pr), eps))
            COUNTERS["frequencies_tested"] += 1
        for kind, st in streams.items():
            if st.bad(DELTA / 3):
                add("choice-stream-biased:%s" % kind + ("|propagate" if prop else ""),
                    "%d %s choices: sum(outcome - conditional probability) = %.1f, Azuma bound %.1f" % (
                        st.n, kind, st.s, math.sqrt(2.0 * st.n * math.log(6.0 / DELTA))))
    COUNTERS["accepted_samples"] += accepted
    if rejected:
        COUNTERS["cases_with_rejection"] += 1
    if streams["ad_later"].n:
        COUNTERS["cases_with_sequential_ad"] += 1
    COUNTERS["mode:%s" % how] += 1
    if viols:
        return viol(viols[0][0], viols[0][1], feat=feats, sample=text, extra_viols=viols[1:])
    return ok(nontrivial=R.nchoices >= 2, key=text + how, feat=feats, sample=text, n=accepted + rejected)


def _find_key(est, q):
    for k in est:
        if str(k).replace(" ", "") == q:
            return k
    return None


def floors(agg):
    c = agg["counters"]
    out = []
    for k, m in (("samples_checked", 1000), ("rejected_samples", 50), ("choices:ad_later", 100), ("choices:fact", 1000),
                 ("probability_lines_checked", 500), ("frequencies_tested", 20), ("mode:estimate", 1), ("mode:str_prop", 1),
                 ("mode:dict_prop", 1)):
        if c.get(k, 0) < m:
            out.append("%s = %d < %d" % (k, c.get(k, 0), m))
    return out
