"""C11 The ground-program builder preserves Boolean meaning (history checker with a symbolic shadow model)."""
import collections
import itertools

from ..core import ok, viol, skip, COUNTERS, short_exc
from ..ref import boolfn as B

ID = "C11"
LEVEL = "exploration"
RULE = ("case = history of builder calls on a fresh LogicFormula (add_atom with/without group and with probabilities "
        "None/False/True/0.0/1.0/0.3, add_and, add_or readonly/mutable/placeholder, add_disjunct, negate, add_name) whose components "
        "are earlier keys, their negations, TRUE, FALSE, duplicates and complements, under sampled options (auto_compact, keep_order, "
        "keep_duplicates, keep_all, avoid_name_clash, max_arity, propagate_weights); bounded-exhaustive short histories over a small "
        "call alphabet plus random histories up to length 40; after EVERY call the truth table (least fixpoint, all atom assignments) "
        "of every key returned so far is compared with an unsimplified shadow formula; non-trivial = history with a mutable "
        "disjunction that is updated after being used as a component, or with >= 6 compound calls; distinct by history")
ASSUMPTIONS = ["keep_all is only combined with ordinary probabilistic atoms (its treatment of deterministic atoms is covered by C06)",
               "with propagate_weights the probabilities 0.0 and 1.0 are not used (weight-aware folding is a C06 matter, not Boolean meaning)",
               "histories that put a negated reference inside a cycle are cut at that point (no least-fixpoint meaning)"]
LEVEL_TEXT = ("Each call sequence is replayed on the real LogicFormula and on an unsimplified shadow graph; all keys handed out so far are "
              "re-evaluated after every call, so folding, hash-consing, single-child collapsing and later updates of shared mutable nodes "
              "are all observed at the moment they would change a returned key's meaning.")
LEVEL_NOTE = "Trusts pbmon/ref/boolfn.py; histories over <= 4 atoms (+ AD extra atoms), length <= 40."
TECHNIQUE = "runtime history monitor with shadow reference model (truth tables after every call)"
BUDGET = {"quick": 30000, "thorough": 600000}
TIME_BUDGET = {"quick": 200, "thorough": 3000}
CASE_TIMEOUT = 30

Atom = collections.namedtuple("Atom", "identifier")
Comp = collections.namedtuple("Comp", "children")


class Shadow(object):
    """unsimplified AND/OR graph; node ids 1..n; literals are signed ids, 0 = TRUE, None = FALSE"""

    def __init__(self):
        self.nodes = []

    def add(self, ntype, payload):
        self.nodes.append([ntype, payload])
        return len(self.nodes)

    def __iter__(self):
        for i, (t, p) in enumerate(self.nodes):
            if t == "atom":
                yield i + 1, Atom(p), "atom"
            else:
                yield i + 1, Comp(tuple(p)), t


EXH_ALPHA = [("atom", 0), ("atom", 1), ("or_m", [-1]), ("or_m", [-1, -2]), ("or_r", [-1, -2]), ("and", [-1, -2]), ("and", [-1, "n-2"]),
             ("disj", -1, -2), ("disj", -2, -1), ("or_r", [-2, -3]), ("neg", -1), ("or_r", [-1])]


def gen_case(rng, i, tier):
    opts = {}
    if i % 3 == 1:
        for o, p in (("auto_compact", 0.15), ("keep_order", 0.3), ("keep_duplicates", 0.25), ("keep_all", 0.15), ("avoid_name_clash", 0.3)):
            if rng.random() < p:
                opts[o] = (o != "auto_compact")
        opts["max_arity"] = rng.choice([0, 0, 2, 3])
        if rng.random() < 0.3:
            opts["pw"] = True
    elif i % 3 == 2:
        opts["max_arity"] = rng.choice([0, 2])
    L = 4 if tier != "thorough" else 5
    nexh = len(EXH_ALPHA) ** L
    share = int(BUDGET[tier] * 0.4)
    if i < share and i % 3 == 0:
        j = (i // 3) * (nexh // max(1, share // 3) or 1) % nexh
        seq = []
        for _ in range(L):
            seq.append(EXH_ALPHA[j % len(EXH_ALPHA)])
            j //= len(EXH_ALPHA)
        return dict(mode="exh", opts={}, ops=[["atom", 0, 0.3, None], ["atom", 1, 0.4, None]] + [_exh_op(x) for x in seq])
    n = rng.randint(4, 40)
    ops = []
    for k in range(n):
        r = rng.random()
        if r < 0.22 or k < 2:
            ident = rng.randrange(4)
            pr = rng.choice([0.3, 0.3, 0.5, None, False, True, 0.0, 1.0]) if not opts.get("keep_all") else rng.choice([0.3, 0.5, True])
            grp = rng.choice([None, None, None, 7, 8])
            ops.append(["atom", ident, pr, grp])
        elif r < 0.42:
            ops.append(["and", _comps(rng, k)])
        elif r < 0.6:
            ops.append(["or_r", _comps(rng, k)])
        elif r < 0.75:
            ops.append(["or_m", _comps(rng, k, allow_empty=rng.random() < 0.15), rng.random() < 0.15])
        elif r < 0.9:
            ops.append(["disj", rng.randrange(k + 2), _ref(rng, k)])
        elif r < 0.95:
            ops.append(["neg", _ref(rng, k)])
        else:
            ops.append(["name", _ref(rng, k), "n%d" % rng.randrange(3)])
    return dict(mode="rnd", opts=opts, ops=ops)


def _exh_op(x):
    if x[0] == "atom":
        return ["atom", x[1], 0.3, None]
    if x[0] in ("or_m", "or_r", "and"):
        return [x[0], [c if isinstance(c, str) else ["back", -c] for c in x[1]]] + ([False] if x[0] == "or_m" else [])
    if x[0] == "disj":
        return ["disj_back", -x[1], ["back", -x[2]]]
    return ["neg", ["back", -x[1]]]


def _ref(rng, k):
    r = rng.random()
    if r < 0.08:
        return "T"
    if r < 0.16:
        return "F"
    c = ["ret", rng.randrange(k + 1)]
    return ["not", c] if rng.random() < 0.3 else c


def _comps(rng, k, allow_empty=False):
    if allow_empty:
        return []
    n = rng.choice([1, 2, 2, 3, 3, 4])
    cs = [_ref(rng, k) for _ in range(n)]
    if rng.random() < 0.15 and cs:
        cs.append(cs[0])                                  # duplicate
    if rng.random() < 0.12 and cs and isinstance(cs[0], list):
        cs.append(["not", cs[0]] if cs[0][0] != "not" else cs[0][1])   # complement
    return cs


class Cut(Exception):
    pass


def run_case(case):
    from problog.formula import LogicFormula
    from problog.evaluator import SemiringProbability
    opts = dict(case["opts"])
    pw = opts.pop("pw", False)
    if pw:
        opts["propagate_weights"] = SemiringProbability()
    f = LogicFormula(**opts)
    sh = Shadow()
    rets = []          # (real literal, shadow literal, descr) per call, in call order
    mutable = {}       # real key -> shadow id of mutable disjunctions
    atoms = {}         # identifier -> shadow lit
    updated_after_use = False
    used_as_component = set()
    ncompound = 0

    def resolve(ref):
        """-> (real literal, shadow literal)"""
        if ref == "T":
            return 0, 0
        if ref == "F":
            return None, None
        if isinstance(ref, str) and ref.startswith("n-"):
            r, s = resolve(["back", int(ref[2:])])
            return f.negate(r), _neg(s)
        if ref[0] == "not":
            r, s = resolve(ref[1])
            return f.negate(r), _neg(s)
        if ref[0] == "back":
            if len(rets) < ref[1]:
                raise Cut()
            return rets[-ref[1]][0], rets[-ref[1]][1]
        if not rets:
            raise Cut()
        r = rets[ref[1] % len(rets)]
        return r[0], r[1]

    def check(step, descr):
        uni = []
        for key, node, t in f:
            if t == "atom" and node.identifier not in uni:
                uni.append(node.identifier)
        for key, node, t in sh:
            if t == "atom" and node.identifier not in uni:
                uni.append(node.identifier)
        if len(uni) > 10:
            raise Cut()
        try:
            tr = B.formula_tables(f, uni)
            ts = B.formula_tables(sh, uni)
        except B.NegationInCycle:
            raise Cut()
        FULL = B.full(len(uni))
        for j, (rl, sl, d) in enumerate(rets):
            a, b = B.lit(rl, tr, FULL), B.lit(sl, ts, FULL)
            if a != b:
                bad = a ^ b
                asg = (bad & -bad).bit_length() - 1
                kind = "returned-key" if j == len(rets) - 1 else "earlier-key"
                return ("%s-meaning:%s" % (kind, descr.split("(")[0]),
                        "after step %d %s: key %r returned by call %d (%s) now denotes %d but the call sequence describes %d under %s "
                        "(atoms %s)" % (step, descr, rl, j, d, (a >> asg) & 1, (b >> asg) & 1,
                                        {u: (asg >> k) & 1 for k, u in enumerate(uni)}, uni))
        return None
    nops = 0
    try:
        for step, op in enumerate(case["ops"]):
            kind = op[0]
            if kind == "atom":
                _, ident, pr, grp = op
                group = (grp, ()) if grp is not None else None
                r = f.add_atom(("id", ident), pr, group=group)
                if pr is None:
                    s = 0
                elif pr is False:
                    s = None
                elif pw and pr in (0.0, 1.0) and pr is not True and pr is not False:
                    continue   # weight-aware folding is not a Boolean-meaning question (covered by C06)
                else:
                    if ("id", ident) not in atoms:
                        atoms[("id", ident)] = sh.add("atom", ("id", ident))
                    s = atoms[("id", ident)]
                    # an identifier first added as a constant keeps being what the builder said it was: model by identity
                descr = "add_atom(%r,%r,group=%r)" % (ident, pr, grp)
                if isinstance(r, int) and r > 0 and type(f.get_node(r)).__name__ == "atom" and f.get_node(r).identifier == ("id", ident) \
                        and ("id", ident) not in atoms:
                    # builder created a real atom for a probability the model folded (or vice versa): compare as described
                    pass
            elif kind in ("and", "or_r", "or_m"):
                comps = [resolve(c) for c in op[1]]
                reals = [c[0] for c in comps]
                shs = [c[1] for c in comps]
                for c in reals:
                    if c is not None and c != 0:
                        used_as_component.add(abs(c))
                ncompound += 1
                if kind == "and":
                    if not reals:
                        raise Cut()
                    r = f.add_and(reals)
                    s = sh.add("conj", shs)
                    descr = "add_and(%r)" % (reals,)
                elif kind == "or_r":
                    if not reals:
                        raise Cut()
                    r = f.add_or(reals)
                    s = sh.add("disj", shs)
                    descr = "add_or(%r)" % (reals,)
                else:
                    placeholder = bool(op[2]) if len(op) > 2 else False
                    if not reals and not placeholder:
                        placeholder = True
                    r = f.add_or(reals, readonly=False, placeholder=placeholder)
                    s = sh.add("disj", shs)
                    descr = "add_or(%r, readonly=False, placeholder=%r)" % (reals, placeholder)
                    if isinstance(r, int) and r > 0:
                        mutable[r] = s
            elif kind in ("disj", "disj_back"):
                if kind == "disj_back":
                    if len(rets) < op[1]:
                        raise Cut()
                    target = rets[-op[1]][0]
                else:
                    if not mutable:
                        continue
                    target = sorted(mutable)[op[1] % len(mutable)]
                if target not in mutable:
                    continue
                creal, csh = resolve(op[2])
                descr = "add_disjunct(%r, %r)" % (target, creal)
                r = f.add_disjunct(target, creal)
                sh.nodes[mutable[target] - 1][1] = list(sh.nodes[mutable[target] - 1][1]) + [csh]
                s = mutable[target]
                if target in used_as_component:
                    updated_after_use = True
                if r != target:
                    return viol("add_disjunct-return", "%s returned %r, documented ':return: key' (%r)" % (descr, r, target),
                                sample=case["ops"][:step + 1])
            elif kind == "neg":
                rr, ss = resolve(op[1])
                r = f.negate(rr)
                s = _neg(ss)
                descr = "negate(%r)" % (rr,)
            elif kind == "name":
                from problog.logic import Term
                rr, ss = resolve(op[1])
                f.add_name(Term(op[2]), rr, f.LABEL_QUERY)
                got = f.get_node_by_name(Term(op[2]))
                if got != rr:
                    return viol("add_name-lookup", "add_name(%s,%r) then get_node_by_name gives %r" % (op[2], rr, got), sample=case["ops"][:step + 1])
                r, s, descr = rr, ss, "add_name(%s,%r)" % (op[2], rr)
            else:
                continue
            rets.append((r, s, descr))
            nops += 1
            v = check(step, descr)
            if v is not None:
                optxt = ",".join("%s=%s" % kv for kv in sorted(case["opts"].items())) or "defaults"
                return viol(v[0], v[1] + " [options: %s]" % optxt, sample=case["ops"][:step + 1])
    except Cut:
        pass
    except (ValueError, AssertionError) as e:
        # documented refusals (updating a non-disjunction / failing node); assertion on empty content
        COUNTERS["builder_refusals"] += 1
    COUNTERS["builder_calls"] += nops
    COUNTERS["keys_rechecked"] += nops * (nops + 1) // 2
    if updated_after_use:
        COUNTERS["mutable_updated_after_use"] += 1
    if nops == 0:
        return skip("empty history")
    return ok(nontrivial=updated_after_use or ncompound >= 6, feat=[case["mode"]] + sorted(case["opts"]), n=nops,
              sample=case["ops"][:8])


def _neg(s):
    if s is None:
        return 0
    if s == 0:
        return None
    return -s


def floors(agg):
    c = agg["counters"]
    return ["monitor %s is zero" % k for k in ("builder_calls", "mutable_updated_after_use") if not c.get(k)]
