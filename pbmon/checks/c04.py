"""C04 Documented arbitrary-order (unbuffered) evaluation agrees with default."""
import os
import random
import tempfile

from ..core import ok, viol, skip, COUNTERS
from ..gen import prog as G
from ..ref import worlds
from .. import sut, judge, instrument

ID = "C04"
LEVEL = "exploration"
RULE = ("case = generated program (or a corpus file of /repo/test that evaluates without I/O) evaluated with the default engine and "
        "with StackBasedEngine(unbuffered=True), (unbuffered=True, rc_first=True), the hidden CLI flag --unbuffered and the "
        "RandomOrderEngine of docs/source/engine.rst (copied verbatim, seeded, K seeds); probabilities, instance sets and the "
        "accept/reject decision must agree up to list element order; non-trivial = program with >= 2 clauses for some derived "
        "predicate; distinct by program text")
ASSUMPTIONS = ["the default engine is the reference (itself checked against the possible-world enumerator for generated programs)",
               "on recursive programs the unbuffered modes are known to fail with listed engine errors (known findings keyed by "
               "exception + raising frame); answered-but-different numbers are violations everywhere"]
LEVEL_TEXT = ("Every configuration the property names is driven over generated programs and the repository corpus and compared with the "
              "default engine; reach counters show each configuration was executed.")
LEVEL_NOTE = "Clean class = non-recursive programs (no finding accepted). The documented RandomOrderEngine is instantiated from the text of engine.rst."
TECHNIQUE = "runtime differential monitor across engine configurations (seeded random choice-point order) + reference-model oracle"
BUDGET = {"quick": 360, "thorough": 4500}
TIME_BUDGET = {"quick": 220, "thorough": 3300}
CASE_TIMEOUT = 60
WATCHDOG_FRACTION = 0.05

_S = {}


def doc_engine_source():
    """the python code block of docs/source/engine.rst, verbatim"""
    path = os.path.join(os.environ.get("PBMON_REPO", "/repo"), "docs", "source", "engine.rst")
    lines = open(path).read().splitlines()
    out, on = [], False
    for ln in lines:
        if ln.strip().startswith(".. code-block:: python"):
            on = True
            continue
        if on:
            if ln.strip() == "" or ln.startswith("    "):
                out.append(ln[4:])
            else:
                break
    return "\n".join(out)


def setup_worker(tier):
    src = doc_engine_source()
    ns = {}
    rnd = random.Random(0)
    pre = "from problog.engine_stack import MessageAnyOrder\n"
    exec(pre + src, ns)  # noqa: S102 - documentation code of the repository under test
    ns["random"] = rnd
    _S["ns"] = ns
    _S["rnd"] = rnd
    corpus = []
    tdir = os.path.join(os.environ.get("PBMON_REPO", "/repo"), "test")
    for fn in sorted(os.listdir(tdir)):
        if fn.endswith(".pl"):
            txt = open(os.path.join(tdir, fn)).read()
            if any(w in txt for w in ("consult", "use_module", "load_external", "write(", "nl", "debugprint", "subquery", "sqlite", "csv", "cmd_args")):
                continue
            corpus.append((fn, txt))
    _S["corpus"] = corpus
    instrument.reach_install({"engine_stack.py": ["MessageOrderD.pop", "MessageOrderDrc.pop", "MessageAnyOrder.cycle_exhausted"]})


def gen_case(rng, i, tier):
    if i % 10 == 9:
        return dict(corpus=rng.randrange(10 ** 6), k=4 if tier != "thorough" else 16, sseed=rng.randrange(1 << 30))
    # the documented agreement only holds on acyclic programs (recorded finding KF-C04-unbuffered): most cases are acyclic, with
    # disjunctive bodies and several queries so that goals are answered from the table
    p = G.gen(rng, stratified=True, allow_cycles=(i % 5 >= 3))
    return dict(prog=p, k=4 if tier != "thorough" else 16, sseed=rng.randrange(1 << 30), disj=(i % 2 == 1 or i % 5 == 0))


def run_cli(text, flags):
    from problog.tasks import probability
    fd, fn = tempfile.mkstemp(suffix=".pl")
    with os.fdopen(fd, "w") as f:
        f.write(text)
    try:
        succ, res = probability.main_result([fn] + flags)
    finally:
        os.unlink(fn)
    if succ:
        return dict(kind="ok", result={str(k): v for k, v in res.items()})
    return sut.outcome_of_exception(res)


def run_case(case):
    from problog.engine import DefaultEngine
    from problog.engine_stack import StackBasedEngine
    if "corpus" in case:
        fn, text = _S["corpus"][case["corpus"] % len(_S["corpus"])]
        F = {"rec": True, "clean": False}
        cls = "corpus"
        feats = ["corpus"]
        base = sut.evaluate_text(text, engine=DefaultEngine())
        if base["kind"] == "crash":
            return skip("corpus file crashes the default engine: %s" % base["sig"])
        nt = True
    else:
        prog = case["prog"]
        F = G.features(prog)
        allheads = {h[0] for hs, _b, _p in G.rules_of(prog) for h in hs}
        R = worlds.reference(prog, max_worlds=1 << 10, cyc_preds=allheads)   # dead bodies anywhere
        if R.status == "too_big":
            return skip("reference too big")
        dead_any = R.dead_body_in_cycle
        R.dead_body_in_cycle = False
        if dead_any and F["rec"]:
            F["contra_cyc"] = True
            F["clean"] = False
        text = G.to_text(prog, disj=case.get("disj", False))
        base = sut.evaluate_text(text, engine=DefaultEngine())
        v = judge.judge(base, R, F)
        feats = G.feat_list(F)
        if v is not None:
            return viol("baseline:" + v[0], v[1] + "\n" + text, feat=feats, sample=text)
        # unbuffered modes feed FALSE proofs (contradictory bodies) to every define node: same mechanism as KF-A
        contra = F["contra"] or F["contra_ev"] or dead_any
        cls = "recursive" if F["rec"] else ("acyclic+contra" if contra else "acyclic")
        heads = [c[2][0] for c in prog["clauses"] if c[0] == "rule" and c[3]]
        nt = len(heads) != len(set(heads))
    configs = [("unbuffered", lambda: sut.evaluate_text(text, engine=StackBasedEngine(unbuffered=True))),
               ("unbuffered_rc_first", lambda: sut.evaluate_text(text, engine=StackBasedEngine(unbuffered=True, rc_first=True))),
               ("cli_unbuffered", lambda: run_cli(text, ["--unbuffered", "--dont-propagate-evidence"]))]
    for k in range(case["k"]):
        def mk(k=k):
            _S["rnd"].seed("%s/%d" % (case["sseed"], k))
            return sut.evaluate_text(text, engine=_S["ns"]["RandomOrderEngine"]())
        configs.append(("doc_random_order", mk))
    cli_base = None
    for name, run in configs:
        o = run()
        COUNTERS["config_" + name] += 1
        ref = base
        if name == "cli_unbuffered":
            # the CLI result is compared with the CLI without the flag (same printing / option defaults)
            if cli_base is None:
                cli_base = run_cli(text, ["--dont-propagate-evidence"])
            ref = cli_base
        d = sut.same_outcome(ref, o, listcanon=True)
        if d is not None:
            if ref["kind"] == "ok" and o["kind"] == "ok":
                sig = "config-diff:%s:%s" % (name, d[0])      # plain value differences are never a known finding
                if cls != "acyclic":
                    sig += "|" + cls   # clean class (acyclic, no FALSE body): never a known finding
            else:
                sig = "config-diff:%s:%s->%s|%s" % (name, ref.get("sig", ref["kind"]), o.get("sig", o["kind"]), cls)
            return viol(sig, "%s differs from the default engine: %s\n%s" % (name, d[1], text), nontrivial=nt,
                        feat=feats + [name], sample=text)
    return ok(nontrivial=nt, feat=feats + [cls], sample=text)


def floors(agg):
    c = agg["counters"]
    out = []
    for k in ("config_unbuffered", "config_unbuffered_rc_first", "config_cli_unbuffered", "config_doc_random_order",
              "reach:engine_stack:MessageOrderD.pop", "reach:engine_stack:MessageOrderDrc.pop"):
        if not c.get(k):
            out.append("configuration/monitor %s never reached" % k)
    return out
