"""C28 Python and Prolog values convert losslessly."""
import os
import tempfile

from ..core import ok, viol, COUNTERS, short_exc
from .. import sut

ID = "C28"
LEVEL = "exploration"
RULE = ("case = (a) batch of nested Python values - lists and tuples (length != 1) of ints, floats and strings containing quotes, "
        "spaces, unicode, empty strings - checked for pl2py(py2pl(v)) == v with exact types; (b) generated programs that load a "
        "scratch module of functions exported with problog_export / problog_export_nondet (int, float, str, list, term arguments, "
        "one and two outputs) and call them with random arguments in every call mode (outputs unbound, bound to the right value, "
        "bound to a wrong value, mixed): the answers seen from ProbLog must be exactly the Python results; non-trivial = value with "
        "nesting depth >= 2 or a string with a quote / call with a bound output; distinct by batch")
ASSUMPTIONS = ["tuples of length 1 are excluded (the property excludes them)", "floats are compared exactly after the round trip"]
LEVEL_TEXT = "Property-based values through the real converters plus end-to-end calls of exported Python functions from generated programs."
LEVEL_NOTE = "The scratch module is written into the per-run temporary directory."
TECHNIQUE = "runtime round-trip oracle + differential check of exported functions against direct Python calls"
BUDGET = {"quick": 600, "thorough": 15000}
TIME_BUDGET = {"quick": 200, "thorough": 3000}
CASE_TIMEOUT = 40

STRS = ["abc", "hello world", "it's", 'say "hi"', "", "é", "a'b\"c", "X", "with, comma", "(paren)", "[1,2]", "0", "1.5"]
_S = {}

MODULE = '''
from problog.extern import problog_export, problog_export_nondet

@problog_export('+int', '+int', '-int')
def padd(a, b):
    return a + b

@problog_export('+int', '-int', '-int')
def pdivmod(a):
    return a // 3, a % 3

@problog_export('+int', '+int', '-int', '-int')
def plus_times(a, b):
    return a + b, a * b

@problog_export('+float', '-float')
def phalf(x):
    return x / 2

@problog_export('+str', '-str')
def pup(s):
    return s.upper()

@problog_export('+list', '-list')
def prev(l):
    return list(reversed(l))

@problog_export('+list', '-int')
def plen(l):
    return len(l)

@problog_export('+int', '-list')
def prange(n):
    return list(range(n))

@problog_export_nondet('+int', '-int')
def pupto(n):
    return list(range(n))

@problog_export_nondet('+int', '-int', '-int')
def ppairs(n):
    return [(i, n - i) for i in range(n)]
'''


def setup_worker(tier):
    d = tempfile.mkdtemp(prefix="c28mod.")
    path = os.path.join(d, "c28scratch.py")
    with open(path, "w") as f:
        f.write(MODULE)
    _S["mod"] = path


def rand_value(rng, depth):
    r = rng.random()
    if depth <= 0 or r < 0.45:
        k = rng.random()
        if k < 0.35:
            return rng.choice([0, 1, -1, 7, 42, -300, 10 ** 12])
        if k < 0.6:
            return rng.choice([0.5, -2.25, 1e-20, 0.30000000000000004, 3.0, 1e20, 123456.789])
        return rng.choice(STRS)
    n = rng.choice([0, 2, 2, 3, 4])
    items = [rand_value(rng, depth - 1) for _ in range(n)]
    return items if rng.random() < 0.6 else ["__tuple__", items]


def gen_case(rng, i, tier):
    if i % 2 == 0:
        return dict(mode="roundtrip", values=[rand_value(rng, rng.choice([1, 2, 3])) for _ in range(20)])
    calls = []
    for _ in range(6):
        f = rng.choice(["padd", "pdivmod", "plus_times", "phalf", "pup", "prev", "plen", "prange", "pupto", "ppairs"])
        a, b = rng.randint(-5, 20), rng.randint(-5, 9)
        calls.append([f, a, b, rng.choice(["free", "free", "bound_right", "bound_wrong", "mixed_right", "mixed_wrong"]),
                      rng.choice(["abc", "hello", "xyZ"]), [rng.randint(0, 5) for _ in range(rng.randint(0, 4))]])
    return dict(mode="extern", calls=calls)


def thaw(v):
    if isinstance(v, list) and len(v) == 2 and v[0] == "__tuple__":
        return tuple(thaw(x) for x in v[1])
    if isinstance(v, list):
        return [thaw(x) for x in v]
    return v


def typed_eq(a, b):
    if type(a) is not type(b):
        return False
    if isinstance(a, (list, tuple)):
        return len(a) == len(b) and all(typed_eq(x, y) for x, y in zip(a, b))
    return a == b


def klass(v):
    """input class of a value for signatures"""
    tags = set()

    def go(x, last=False):
        if isinstance(x, str):
            if '"' in x or "'" in x:
                tags.add("string-with-quote")
        elif isinstance(x, float):
            if x != round(x, 15) or (x != 0 and abs(x) < 1e-15):
                tags.add("float-beyond-15-decimals")
        elif isinstance(x, tuple):
            if x and isinstance(x[-1], tuple):
                tags.add("tuple-ending-in-tuple")
            if len(x) == 0:
                tags.add("empty-tuple")
            for e in x:
                go(e)
        elif isinstance(x, list):
            for e in x:
                go(e)
    go(v)
    return "+".join(sorted(tags)) or "plain"


def norm_known(v):
    """v as the two recorded representational limits transform it: floats rounded to 15 decimals (Constant.FLOAT_PRECISION),
    a tuple whose last element is a tuple flattened (','/2 is right-nested).  Returns (value, set of limits applied)."""
    why = set()

    def go(x):
        if isinstance(x, float):
            r = round(x, 15)
            if r != x:
                why.add("float-beyond-15-decimals")
            return r
        if isinstance(x, list):
            return [go(e) for e in x]
        if isinstance(x, tuple):
            items = [go(e) for e in x]
            while items and isinstance(items[-1], tuple) and len(items[-1]) > 0:
                why.add("tuple-ending-in-tuple")
                items = items[:-1] + list(items[-1])
            return tuple(items)
        return x
    return go(v), why


def run_roundtrip(case):
    from problog.pypl import py2pl, pl2py
    vs = []
    n = 0
    nt = False
    for raw in case["values"]:
        v = thaw(raw)
        if isinstance(v, tuple) and len(v) == 1:
            continue
        n += 1
        k = klass(v)
        if k != "plain" or (isinstance(v, (list, tuple)) and any(isinstance(e, (list, tuple)) for e in v)):
            nt = True
        try:
            back = pl2py(py2pl(v))
        except Exception as e:  # noqa
            vs.append(("roundtrip:%s:raises:%s" % (k, type(e).__name__), "pl2py(py2pl(%r)) raised %s" % (v, short_exc(e))))
            continue
        if not typed_eq(back, v):
            # two representational limits are recorded findings: only a difference that they do not explain is new
            nk, why = norm_known(v)
            if why and typed_eq(back, nk):
                vs.append(("roundtrip:known-limit:%s" % "+".join(sorted(why)), "pl2py(py2pl(%r)) == %r" % (v, back)))
            else:
                vs.append(("roundtrip:%s:changed" % k, "pl2py(py2pl(%r)) == %r" % (v, back)))
    COUNTERS["values_roundtripped"] += n
    return n, vs, nt, [repr(thaw(x)) for x in case["values"][:3]]


def run_extern(case):
    lines = [":- use_module('%s')." % _S["mod"]]
    expect = []
    for j, (f, a, b, mode, s, l) in enumerate(case["calls"]):
        ltxt = "[%s]" % ",".join(map(str, l))
        if f == "padd":
            r = a + b
            goal, outs = "padd(%d,%d,%s)", [r]
            args = (a, b)
        elif f == "pdivmod":
            goal, outs, args = "pdivmod(%d,%s,%s)", [a // 3, a % 3], (a,)
        elif f == "plus_times":
            goal, outs, args = "plus_times(%d,%d,%s,%s)", [a + b, a * b], (a, b)
        elif f == "phalf":
            goal, outs, args = "phalf(%s,%s)", [float(a) / 2], (repr(float(a)),)
        elif f == "pup":
            goal, outs, args = "pup(%s,%s)", [s.upper()], ('"%s"' % s,)
        elif f == "prev":
            goal, outs, args = "prev(%s,%s)", [list(reversed(l))], (ltxt,)
        elif f == "plen":
            goal, outs, args = "plen(%s,%s)", [len(l)], (ltxt,)
        elif f == "prange":
            goal, outs, args = "prange(%d,%s)", [list(range(max(0, b)))], (max(0, b),)
        elif f == "pupto":
            goal, outs, args = "pupto(%d,%s)", None, (max(0, b),)
        else:
            goal, outs, args = "ppairs(%d,%s,%s)", None, (max(0, b),)
        nout = goal.count("%s") - sum(1 for x in args if isinstance(x, str)) if False else (2 if f in ("pdivmod", "plus_times", "ppairs") else 1)
        if outs is not None:
            sols = [tuple(outs)]
        elif f == "pupto":
            sols = [(k,) for k in range(max(0, b))]
        else:
            sols = [(k, max(0, b) - k) for k in range(max(0, b))]
        # call mode
        pat = []
        for k in range(nout):
            if mode == "free" or not sols:
                pat.append(None)
            elif mode == "bound_right":
                pat.append(sols[0][k])
            elif mode == "bound_wrong":
                pat.append(_wrong(sols[0][k]))
            elif mode == "mixed_right":
                pat.append(sols[0][k] if k == 0 else None)
            else:
                pat.append(_wrong(sols[0][k]) if k == 0 else None)
        exp = [sol for sol in sols if all(p is None or _same(p, x) for p, x in zip(pat, sol))]
        outtxt = [("R%d" % (k + 1)) if p is None else _pl(p) for k, p in enumerate(pat)]
        head = "c%d(%s)" % (j, ",".join("R%d" % (k + 1) if p is None else "bound" for k, p in enumerate(pat)))
        fmt_args = tuple(args) + tuple(outtxt)
        lines.append("%s :- %s." % (head, goal % fmt_args))
        lines.append("query(c%d(%s))." % (j, ",".join("_" for _ in pat)))
        expect.append((j, f, mode, pat, exp, goal % fmt_args))
    text = "\n".join(lines) + "\n"
    o = sut.evaluate_text(text)
    n = len(expect)
    vs = []
    if o["kind"] != "ok":
        return n, [("extern:%s" % o["sig"], "problog raised %s\n%s" % (sut.describe(o), text))], True, text
    got = {}
    for name, v in o["result"].items():
        if abs(v - 1.0) > 1e-9 and abs(v) > 1e-9:
            vs.append(("extern:probability", "%s reported with %r" % (name, v)))
        if abs(v) > 1e-9:
            got.setdefault(name[:name.index("(")], []).append(name.replace(" ", ""))
    for j, f, mode, pat, exp, goal in expect:
        want = sorted(("c%d(%s)" % (j, ",".join(_pl(x) if p is None else "bound" for p, x in zip(pat, sol)))).replace(" ", "") for sol in exp)
        want = sorted(w.replace("'", "") for w in want)
        have = sorted(x.replace("'", "") for x in got.get("c%d" % j, []) if "(_" not in x and ",_" not in x)
        COUNTERS["calls_%s" % mode] += 1
        if have != want:
            vs.append(("extern:%s:%s" % (f, "bound-output" if mode != "free" else "result"),
                       "%s (mode %s): problog answers %s, the Python function gives %s\n%s" % (goal, mode, have, want, text)))
    return n, vs, any(e[2] != "free" for e in expect), text


def _wrong(x):
    if isinstance(x, int):
        return x + 1
    if isinstance(x, float):
        return x + 1.0
    if isinstance(x, str):
        return x + "Q"
    return list(x) + [99]


def _same(p, x):
    return p == x and type(p) is type(x)


def _pl(x):
    if isinstance(x, list):
        return "[%s]" % ",".join(_pl(e) for e in x)
    if isinstance(x, str):
        return x if x[:1].islower() and x.isalnum() else "'%s'" % x
    return repr(x)


def run_case(case):
    n, vs, nt, sample = (run_roundtrip if case["mode"] == "roundtrip" else run_extern)(case)
    seen, uniq = set(), []
    for v in vs:
        if v[0] not in seen:
            seen.add(v[0])
            uniq.append(v)
    if uniq:
        return viol(uniq[0][0], uniq[0][1], nontrivial=nt, n=max(1, n), feat=[case["mode"]], extra_viols=[list(x) for x in uniq[1:]], sample=sample)
    return ok(nontrivial=nt, n=max(1, n), feat=[case["mode"]], sample=sample)


def floors(agg):
    c = agg["counters"]
    return ["monitor %s is zero" % k for k in ("values_roundtripped", "calls_free", "calls_bound_right", "calls_mixed_wrong") if not c.get(k)]
