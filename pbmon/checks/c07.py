"""C07 Marginals do not depend on the textual order of the program."""
import random

from ..core import ok, viol, skip, COUNTERS
from ..gen import prog as G
from ..ref import worlds
from .. import sut, judge, instrument

ID = "C07"
LEVEL = "exploration"
RULE = ("case = generated program and S seeded permutations of statement order (facts, rules, queries, evidence), clause order and "
        "body-literal order (negated literals stay after the literals that bind their variables); result dicts / instance sets / "
        "error class must be equal across permutations and equal to the order-free possible-world reference; programs include "
        "calls of one predicate with repeated-variable and distinct-variable patterns; non-trivial = program with >= 3 rules and "
        ">= 2 queries or a recursive predicate; distinct by program text")
ASSUMPTIONS = ["only range-restriction-preserving body permutations: a negated literal never moves before the positive literals binding its variables"]
LEVEL_TEXT = ("Every program is re-evaluated under 5 (quick) / 20 (thorough) seeded textual permutations; since the reference is order-free "
              "by construction, 'all orders equally wrong' is not a pass.")
LEVEL_NOTE = "Known engine crashes on the non-clean input class can appear/disappear with order; they are listed findings."
TECHNIQUE = "runtime metamorphic monitor (seeded textual permutations) + reference-model oracle"
BUDGET = {"quick": 600, "thorough": 5000}
TIME_BUDGET = {"quick": 220, "thorough": 3300}
CASE_TIMEOUT = 60
WATCHDOG_FRACTION = 0.04


def setup_worker(tier):
    instrument.reach_install({"clausedb.py": ["ClauseIndex.find"], "engine_stack.py": ["DefineCache.__getitem__", "DefineCache._reindex_vars"]})


def gen_case(rng, i, tier):
    p = G.gen(rng, stratified=True)
    if i % 3 == 0:
        # one predicate called with a repeated-variable pattern and with distinct variables (tabling keys)
        binp = [c[2] for c in p["clauses"] if c[0] == "fact" and len(c[2][1]) == 2]
        if binp:
            f = binp[0][0]
            L = G.L
            p["clauses"] += [["rule", None, L("e2", ["X", "Y"]), [L(f, ["X", "Y"])]],
                             ["rule", None, L("e2", ["X", "Y"]), [L(f, ["Y", "X"])]],
                             ["rule", None, L("sdiag"), [L("e2", ["X", "X"])]],
                             ["rule", None, L("sany"), [L("e2", ["X", "Y"])]],
                             ["rule", None, L("sboth"), [L("e2", ["X", "X"]), L("e2", ["X", "Y"]), L("dom", ["Y"])]]]
            p["queries"] += [L(q) for q in rng.sample(["sdiag", "sany", "sboth"], 2)]
    return dict(prog=p, s=5 if tier != "thorough" else 20, pseed=rng.randrange(1 << 30))


def permute(prog, rng):
    cl = [list(c) for c in prog["clauses"]]
    for c in cl:
        bi = 3 if c[0] == "rule" else (2 if c[0] == "ad" else None)
        if bi is not None and c[bi]:
            pos = [l for l in c[bi] if not l[2]]
            neg = [l for l in c[bi] if l[2]]
            rng.shuffle(pos)
            c[bi] = pos + neg          # negated literals keep following their binders
    rng.shuffle(cl)
    q = list(prog["queries"])
    e = list(prog["evidence"])
    rng.shuffle(q)
    rng.shuffle(e)
    return dict(consts=prog["consts"], clauses=cl, queries=q, evidence=e)


def statement_shuffle_text(p, rng):
    """interleave queries/evidence with the clauses"""
    lines = [G.clause_txt(c) for c in p["clauses"]] + ["query(%s)." % G.lit_txt(q) for q in p["queries"]] + \
            [G.evidence_txt(e, v) for e, v in p["evidence"]]
    rng.shuffle(lines)
    return "\n".join(lines) + "\n"


def run_case(case):
    prog = case["prog"]
    F = G.features(prog)
    R = worlds.reference(prog, max_worlds=1 << 10, cyc_preds=G.cyclic_preds(prog))
    if R.status == "too_big":
        return skip("reference too big")
    F = G.refine_with_reference(F, R)
    cls = judge.input_class(F)
    feats = G.feat_list(F)
    text0 = G.to_text(prog)
    base = sut.evaluate_text(text0)
    v = judge.judge(base, R, F)
    if v is not None:
        return viol("baseline:" + v[0], v[1] + "\n" + text0, feat=feats, sample=text0)
    for k in range(case["s"]):
        rng = random.Random("%s/%d" % (case["pseed"], k))
        p2 = permute(prog, rng)
        text = statement_shuffle_text(p2, rng) if k % 2 else G.to_text(p2)
        o = sut.evaluate_text(text)
        COUNTERS["permutations_run"] += 1
        d = sut.same_outcome(base, o)
        if d is not None:
            if base["kind"] == "ok" and o["kind"] == "ok":
                sig = "order-diff:%s" % d[0]
            else:
                sig = "order-diff:%s->%s" % (base.get("sig", base["kind"]), o.get("sig", o["kind"]))
            if cls != "clean":
                sig += "|" + cls
            return viol(sig, "permutation %s/%d changes the outcome: %s\n--- original\n%s--- permuted\n%s" % (
                case["pseed"], k, d[1], text0, text), feat=feats, sample=text0)
    nrules = sum(1 for c in prog["clauses"] if c[0] != "fact" and (c[3] if c[0] == "rule" else c[2]))
    nt = nrules >= 3 and (len(prog["queries"]) >= 2 or F["rec"])
    return ok(nontrivial=nt, feat=feats, sample=text0, n=case["s"] + 1)


def floors(agg):
    c = agg["counters"]
    return ["monitor %s is zero" % k for k in ("permutations_run", "reach:clausedb:ClauseIndex.find") if not c.get(k)]
