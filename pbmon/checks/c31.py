"""C31 Bayesian-network export preserves the distribution."""
import itertools

from ..core import ok, viol, skip, COUNTERS
from ..gen import prog as G
from ..ref import worlds
from .. import sut, judge, instrument

ID = "C31"
LEVEL = "exploration"
RULE = ("case = generated evidence-free acyclic program (probabilistic facts, ADs with/without bodies, probabilistic rules, negation, "
        "bodies with mixed polarity and non-alphabetical atom order), grounded with the options of the bn task and converted with "
        "formula_to_bn; an independent evaluator multiplies out all factors of the network (OrCPT expanded) and marginalises: every "
        "CPT row must sum to 1, the joint must sum to 1, and the marginal of every exported query variable must equal ProbLog's "
        "probability and the possible-world reference (1e-7); non-trivial = network with >= 4 variables and a noisy-or or "
        "multi-valued variable; distinct by program text")
ASSUMPTIONS = ["networks with <= 16 variables / 2^16 joint assignments are evaluated, larger ones skipped"]
LEVEL_TEXT = "Each exported network is evaluated by brute-force factor multiplication and compared with exact enumeration of the program."
LEVEL_NOTE = "Trusts the 40-line joint evaluator in this file and pbmon/ref/worlds.py."
TECHNIQUE = "runtime reference-model monitor (brute-force joint of the exported network vs possible-world enumeration)"
BUDGET = {"quick": 500, "thorough": 8000}
TIME_BUDGET = {"quick": 200, "thorough": 3000}
CASE_TIMEOUT = 40


def setup_worker(tier):
    instrument.reach_install({"bayesnet.py": ["formula_to_bn", "clause_to_cpt"]})


def gen_case(rng, i, tier):
    p = G.gen(rng, stratified=True, allow_cycles=False, n_evidence=0, mode="mixed")
    p["queries"] = [q for q in p["queries"] if not any(G.isvar(a) for a in q[1])]
    if i % 3 == 0:
        # mixed-polarity bodies with atoms in non-alphabetical order
        facts = [c[2] for c in p["clauses"] if c[0] == "fact"]
        if len(facts) >= 2:
            x, y = rng.sample(facts, 2)
            L = G.L
            p["clauses"].append(["rule", None, L("zq"), [L(y[0], y[1]), L(x[0], x[1], True)]])
            p["clauses"].append(["rule", rng.choice(G.PAL), L("zr"), [L(x[0], x[1], True), L(y[0], y[1])]])
            p["queries"] += [L("zq"), L("zr")]
    return dict(prog=p)


def bn_marginals(bn):
    from problog.pgm.cpd import OrCPT
    names = list(bn.vars.keys())
    if len(names) > 16:
        return None
    facs = []
    for rv, f in bn.factors.items():
        if isinstance(f, OrCPT):
            f = f.to_factor()
        facs.append(f)
    doms = [list(range(len(bn.vars[n].values))) for n in names]
    tot = 1
    for dm in doms:
        tot *= len(dm)
    if tot > 1 << 16:
        return None
    pos = {n: i for i, n in enumerate(names)}
    rows_bad = None
    for f in facs:
        for key, row in f.table.items():
            if abs(sum(row) - 1.0) > 1e-9:
                rows_bad = (f.rv, key, row)
    marg = {n: 0.0 for n in names}
    Z = 0.0
    for asg in itertools.product(*doms):
        p = 1.0
        for f in facs:
            key = tuple(bn.vars[par].values[asg[pos[par]]] for par in f.parents)
            tab = f.table
            if key not in tab:
                key2 = tuple(bool(k) for k in key)
                if key2 in tab:
                    key = key2
                else:
                    raise KeyError("CPT of %s has no row for parent values %r" % (f.rv, key))
            p *= tab[key][asg[pos[f.rv]]]
            if p == 0:
                break
        if p:
            Z += p
            for n in names:
                if len(bn.vars[n].values) == 2 and asg[pos[n]] == 1:
                    marg[n] += p
    return marg, Z, rows_bad, len(names)


def _aliased(gp):
    """do two different labelled atoms share one node of the ground program (e.g. d1(X) :- d0(X). with a single clause)?"""
    seen = {}
    for name, key, label in gp.get_names_with_label():
        if key is None or key == 0:
            continue
        k = abs(key)
        if k in seen and seen[k] != str(name):
            return True
        seen[k] = str(name)
    # the choice atom of an annotated disjunction / probabilistic clause that carries the name of a user atom instead of its own
    # choice(...) name: that atom (d0(2) :- f2(2), f2(2). with 0.6::f2(X) :- dom(X).) shares the node of the choice
    try:
        for _i, n, t in gp:
            if t == "atom" and n.group is not None and not n.is_extra and n.name is not None and not str(n.name).startswith("choice("):
                return True
    except Exception:  # noqa
        pass
    return False


def _syntactic_alias(prog):
    """a predicate whose only clause is deterministic with a single body literal: its atoms share the node of that literal (the ground
    program keeps one name per node, so the sharing is not always visible in the names)"""
    n = {}
    for hs, b, pr in G.rules_of(prog):
        for h in hs:
            n[h[0]] = n.get(h[0], 0) + 1
    for c in prog["clauses"]:
        if c[0] == "fact":
            n[c[2][0]] = n.get(c[2][0], 0) + 1
    return any(c[0] == "rule" and c[1] is None and len(c[3]) == 1 and n.get(c[2][0]) == 1 and c[2][0] != "dom" for c in prog["clauses"])


def _body_node_as_disjunct(gp):
    """is the internal body node of a probabilistic clause (named body_N(...)) also a direct alternative of a disjunction, i.e. does a
    deterministic clause of some atom have exactly the same body as a probabilistic clause?"""
    try:
        for i, n, t in gp:
            if t == "disj":
                for c in n.children:
                    cn = gp.get_node(abs(c))
                    if str(getattr(cn, "name", "") or "").startswith("body_"):
                        return True
    except Exception:  # noqa
        return False
    return False


def run_case(case):
    from problog.program import PrologString
    from problog.formula import LogicDAG
    from problog.tasks.bayesnet import formula_to_bn
    prog = case["prog"]
    if not prog["queries"]:
        return skip("no ground query")
    F = G.features(prog)
    R = worlds.reference(prog, max_worlds=1 << 10, cyc_preds=set())
    if R.status != "ok":
        return skip("reference " + R.status)
    F = G.refine_with_reference(F, R)
    cls = judge.input_class(F)
    text = G.to_text(prog)
    feats = G.feat_list(F)
    base = sut.evaluate_text(text)
    v = judge.judge(base, R, F)
    if v is not None:
        return viol("baseline:" + v[0], v[1] + "\n" + text, feat=feats, sample=text)
    try:
        gp = LogicDAG.createFrom(PrologString(text), label_all=True, avoid_name_clash=False, keep_order=True, keep_all=False,
                                 keep_duplicates=False, hide_builtins=False)
        alias = _aliased(gp) or _syntactic_alias(prog)
        bn = formula_to_bn(gp)
        r = bn_marginals(bn)
    except KeyError as e:
        from ..core import frame_sig
        fs = frame_sig(e)
        if "@?" not in fs and "c31" not in fs:
            return viol("bn:%s" % fs, "exporting the network raised KeyError %s\n%s" % (e, text), feat=feats, sample=text)
        tg = ""
        alias2 = False
        try:
            # the missing variable is a labelled atom whose node carries the name of ANOTHER atom (d0(2) :- f2(2), f2(2). collapses
            # onto the node of f2(2)): two atoms share one node
            missing0 = str(e).strip("'\"")
            for name, key, _label in gp.get_names_with_label():
                if str(name) == missing0 and key not in (None, 0):
                    nn = getattr(gp.get_node(abs(key)), "name", None)
                    if nn is not None and str(nn) != missing0:
                        alias2 = True
        except Exception:  # noqa
            pass
        if _aliased(gp) or _syntactic_alias(prog) or alias2:
            tg += "|aliased-node-names"
        if any(key is not None and key != 0 and key < 0 for _n, key, _l in gp.get_names_with_label()):
            tg += "|negated-labelled-node"
        if "choice(" in str(e) or "body_" in str(e):
            tg += "|ad-internal-node-as-parent"
        try:
            missing = str(e).strip("'\"")
            if any(t == "conj" and str(getattr(n, "name", None)) == missing for _i, n, t in gp):
                tg += "|labelled-conjunction-node"
        except Exception:  # noqa
            pass
        return viol("bn:missing-variable-or-row%s" % tg, "KeyError %s while multiplying out the "
                    "network (a factor refers to a variable/row that does not exist)\n%s" % (e, text), feat=feats, sample=text)
    except Exception as e:  # noqa
        o = sut.outcome_of_exception(e)
        return viol("bn:%s" % o["sig"], "exporting the network raised %s\n%s" % (sut.describe(o), text), feat=feats, sample=text)
    if r is None:
        return skip("network too large")
    marg, Z, rows_bad, nv = r
    COUNTERS["networks_evaluated"] += 1
    # structural class of the two recorded defects: several AD clauses sharing a head atom
    adheads = {}
    for c in prog["clauses"]:
        if c[0] == "ad":
            for _p, h in c[1]:
                adheads[h[0]] = adheads.get(h[0], 0) + 1
        elif c[0] == "rule" and c[1] is not None:
            adheads[c[2][0]] = adheads.get(c[2][0], 0) + 1
    derived = {}
    for hs, b, pr in G.rules_of(prog):
        for h in hs:
            derived[h[0]] = derived.get(h[0], 0) + 1
    tag0 = "|aliased-node-names" if alias else ""
    if _body_node_as_disjunct(gp):
        tag0 += "|clause-body-node-as-disjunct"
    tag = tag0 + "|multiple-probabilistic-clauses-for-one-head" if any(adheads.get(k, 0) >= 1 and derived.get(k, 0) >= 2 for k in derived) else tag0
    if rows_bad is not None:
        return viol("bn:cpt-row-not-normalised" + tag, "CPT row %r of %s sums to %r\n%s" % (rows_bad[1], rows_bad[0], sum(rows_bad[2]), text),
                    feat=feats, sample=text)
    if abs(Z - 1.0) > 1e-9:
        return viol("bn:joint-not-normalised" + tag, "the joint distribution of the network sums to %.10g\n%s" % (Z, text), feat=feats, sample=text)
    for q, p in R.probs.items():
        if q not in marg:
            if float(p) > 1e-9 and float(p) < 1 - 1e-9:
                tq = tag
                if ("\\+" + q) in marg:
                    tq += "|negated-labelled-node"     # the query atom is the negation of a node: exported under the name \+atom
                return viol("bn:query-variable-missing" + tq, "query %s (probability %.10g) is not a variable of the network %s\n%s" % (
                    q, float(p), sorted(marg), text), feat=feats, sample=text)
            continue
        if abs(marg[q] - float(p)) > 1e-7:
            return viol("bn:wrong-marginal" + tag, "network marginal of %s is %.10g, problog/reference %.10g\n%s" % (q, marg[q], float(p), text),
                        feat=feats, sample=text)
    return ok(nontrivial=nv >= 4, feat=feats, sample=text)


def floors(agg):
    c = agg["counters"]
    return ["monitor %s is zero" % k for k in ("networks_evaluated", "reach:bayesnet:clause_to_cpt") if not c.get(k)]
