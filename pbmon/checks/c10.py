"""C10 Compiled d-DNNF is a valid, equivalent circuit (translation validation of every dsharp output)."""
from ..core import ok, viol, skip, COUNTERS
from ..gen import prog as G
from .. import sut, instrument, tv

ID = "C10"
LEVEL = "translation_validation"
RULE = ("case = generated program run through the real pipeline; every (CNF -> DDNNF) instance returned by the bundled dsharp "
        "(and the trivial-CNF path) is captured at the transformation registry and checked node by node: decomposable, "
        "deterministic, smooth, root equivalent to the CNF by exhaustive model enumeration over all CNF variables, labels pointing "
        "to equivalent literals, weights and constraints carried over; non-trivial = circuit with >= 1 OR and >= 1 AND node; "
        "distinct by program text")
ASSUMPTIONS = ["CNFs with <= 18 (quick) / 21 (thorough) variables are validated, larger ones skipped and counted",
               "labels are compared on the models of the CNF", "memory safety of the prebuilt dsharp binary is out of scope (no source)"]
LEVEL_TEXT = ("Every circuit the workload obtains from dsharp is validated against the CNF it was compiled from by truth tables over "
              "all CNF variables plus structural d-DNNF checks: per-instance translation validation.")
LEVEL_NOTE = "Trusts pbmon/ref/boolfn.py and pbmon/tv.py; instances above the variable bound are skipped."
TECHNIQUE = "runtime translation validation of captured CNF->d-DNNF instances (exhaustive model enumeration + structural checks)"
BUDGET = {"quick": 1500, "thorough": 20000}
TIME_BUDGET = {"quick": 200, "thorough": 3000}
CASE_TIMEOUT = 20
WATCHDOG_FRACTION = 0.04

_cap = []


def setup_worker(tier):
    instrument.wrap_transformations(lambda name, src, res, kw: _cap.append((name, src, res)))
    instrument.reach_install({"ddnnf_formula.py": ["_compile", "_load_nnf"]})


def gen_case(rng, i, tier):
    p = G.gen(rng, stratified=True)
    if i % 5 == 0:
        # queries on negative / absent literals: deterministic and impossible atoms, evidence that prunes
        p["queries"].append(G.L("dom", [p["consts"][0]]))
    if i % 4 == 1:
        p = G.add_tautologies(rng, p)
    return dict(prog=p, pe=bool(i % 3 == 0), tier=tier)


def run_case(case):
    del _cap[:]
    prog = case["prog"]
    text = G.to_text(prog)
    o = sut.evaluate_text(text, backend="ddnnf", propagate_evidence=case["pe"])
    max_vars = 18 if case.get("tier") != "thorough" else 21
    feats = ["sut_" + o["kind"]]
    n = 0
    nt = False
    for name, src, res in list(_cap):
        if name != "_compile_with_dsharp":
            continue
        r = tv.validate_ddnnf(src, res, max_vars)
        if r[0] == "skip":
            COUNTERS["ddnnf_skipped:" + r[1]] += 1
            continue
        if r[0] == "viol":
            COUNTERS["disagreements_checked"] += 1
            return viol(r[1], r[2] + "\n" + text, feat=feats, sample=text)
        n += 1
        COUNTERS["ddnnf_validated"] += 1
        COUNTERS["and_nodes_checked"] += r[1]
        COUNTERS["or_nodes_checked"] += r[2]
        if src.is_trivial():
            COUNTERS["trivial_cnf_path"] += 1
        if r[1] and r[2]:
            nt = True
    del _cap[:]
    if n == 0:
        return skip("no instance validated (%s)" % o["kind"], feats)
    COUNTERS["tv_programs"] += 1
    return ok(nontrivial=nt, feat=feats, sample=text, n=n)


def floors(agg):
    c = agg["counters"]
    return ["monitor %s is zero" % k for k in ("ddnnf_validated", "or_nodes_checked", "reach:ddnnf_formula:_load_nnf") if not c.get(k)]
