"""C06 Inference options do not change the answer."""
from ..core import ok, viol, skip, COUNTERS
from ..gen import prog as G
from ..ref import worlds
from .. import sut, judge, instrument

ID = "C06"
LEVEL = "exploration"
RULE = ("case = generated program x K sampled option vectors over propagate_evidence, propagate_weights (None / probability / "
        "log-probability semiring), label_all, avoid_name_clash, keep_order, keep_all, keep_duplicates, hide_builtins, log- vs "
        "normal-space evaluation, three spellings of evidence (evidence(a,true|false), evidence(a)/evidence(\\+a), evidence(not a)) "
        "and the probability CLI flags; every run must equal the all-defaults run and the possible-world reference (same numbers, "
        "same accept/reject); probabilities 0/1 and evidence on AD heads are over-represented; non-trivial = program with evidence "
        "or a 0/1 probability and >= 2 relevant choices; distinct by program text")
ASSUMPTIONS = ["label_all adds labelled nodes but must not change query results", "tolerance 1e-9"]
LEVEL_TEXT = ("Each program is evaluated under 8 (quick) / 24 (thorough) sampled option vectors and evidence spellings through the API "
              "and the CLI; results are compared with the default run and with exact enumeration, reach counters show the "
              "evidence-propagation and weight-propagation branches were taken.")
LEVEL_NOTE = "Known wrong values under specific options are listed findings keyed by option + input class; the clean class accepts none."
TECHNIQUE = "runtime differential monitor across configurations + reference-model oracle + reach counters"
BUDGET = {"quick": 260, "thorough": 3500}
TIME_BUDGET = {"quick": 220, "thorough": 3300}
CASE_TIMEOUT = 60
WATCHDOG_FRACTION = 0.04

BOOL_OPTS = ["propagate_evidence", "label_all", "avoid_name_clash", "keep_order", "keep_all", "keep_duplicates", "hide_builtins"]


def setup_worker(tier):
    instrument.reach_install({"formula.py": ["LogicFormula.propagate", "LogicFormula.set_evidence_value"],
                              "engine_stack.py": ["StackBasedEngine.propagate_evidence"],
                              "constraint.py": ["ConstraintAD.add"]})


def gen_case(rng, i, tier):
    p = G.gen(rng, stratified=True, extremes=0.2 if i % 2 else 0.08, n_evidence=rng.choice([1, 1, 2, 0]))
    if i % 3 == 0:
        # evidence on an AD head
        heads = [h for c in p["clauses"] if c[0] == "ad" for _, h in c[1]]
        if heads:
            h = rng.choice(heads)
            e = G.L(h[0], [a if not G.isvar(a) else rng.choice(p["consts"]) for a in h[1]])
            if not any(x[0][:2] == e[:2] for x in p["evidence"]):
                p["evidence"].append([e, rng.random() < 0.6])
    if i % 3 == 1:
        # alias atoms (h :- x. / h :- \\+x. as the only clause) carrying evidence and queries: propagated evidence travels through shared nodes
        p = G.add_aliases(rng, p)
        al = [c[2] for c in p["clauses"] if c[0] == "rule" and c[2][0].startswith("al")]
        if al and not any(e[0][0].startswith("al") for e in p["evidence"]):
            p["evidence"].append([rng.choice(al), rng.random() < 0.5])
        for a in al:
            if a not in p["queries"] and rng.random() < 0.7:
                p["queries"].append(a)
    k = 8 if tier != "thorough" else 24
    vecs = []
    for j in range(k):
        v = {}
        if j < len(BOOL_OPTS):
            v[BOOL_OPTS[j]] = True           # every single option at least once
        else:
            for o in BOOL_OPTS:
                if rng.random() < 0.3:
                    v[o] = True
        v["pw"] = rng.choice([None, None, "prob", "log"])
        v["space"] = rng.choice(["prob", "log", "default"])
        v["ev_style"] = rng.choice([0, 1, 2])
        v["cli"] = (j == k - 1)
        vecs.append(v)
    return dict(prog=p, vecs=vecs)


def run_vec(prog, v):
    from problog.evaluator import SemiringProbability, SemiringLogProbability
    text = G.to_text(prog, evidence_style=v["ev_style"])
    if v.get("cli"):
        import os
        import tempfile
        from problog.tasks import probability
        fd, fn = tempfile.mkstemp(suffix=".pl")
        with os.fdopen(fd, "w") as f:
            f.write(text)
        flags = []
        if not v.get("propagate_evidence"):
            flags.append("--dont-propagate-evidence")
        if v.get("pw"):
            flags.append("--propagate-weights")
        if v["space"] == "prob":
            flags.append("--nologspace")
        try:
            succ, res = probability.main_result([fn] + flags)
        finally:
            os.unlink(fn)
        if succ:
            return dict(kind="ok", result={str(k): val for k, val in res.items()}), text
        return sut.outcome_of_exception(res), text
    kw = {o: True for o in BOOL_OPTS if v.get(o)}
    if v["pw"] == "prob":
        kw["propagate_weights"] = SemiringProbability()
    elif v["pw"] == "log":
        kw["propagate_weights"] = SemiringLogProbability()
    ekw = {}
    if v["space"] == "prob":
        ekw["semiring"] = SemiringProbability()
    elif v["space"] == "log":
        ekw["semiring"] = SemiringLogProbability()
    return sut.evaluate_text(text, evaluate_kw=ekw, **kw), text


def vec_name(v):
    return "+".join(sorted([o for o in BOOL_OPTS if v.get(o)] + (["pw_" + v["pw"]] if v["pw"] else []) +
                           (["cli"] if v.get("cli") else []))) or "defaults"


def run_case(case):
    prog = case["prog"]
    F = G.features(prog)
    R = worlds.reference(prog, max_worlds=1 << 10, cyc_preds=G.cyclic_preds(prog))
    if R.status == "too_big":
        return skip("reference too big")
    F = G.refine_with_reference(F, R)
    cls = judge.input_class(F)
    feats = G.feat_list(F)
    text0 = G.to_text(prog)
    base = sut.evaluate_text(text0)
    v = judge.judge(base, R, F)
    if v is not None:
        return viol("baseline:" + v[0], v[1] + "\n" + text0, feat=feats, sample=text0)
    ev_on_ad = any(e[0][0] == h[0] for e in prog["evidence"] for c in prog["clauses"] if c[0] == "ad" for _, h in c[1])
    det_in_body = any(l[0] == "dom" for hs, body, _p in G.rules_of(prog) for l in body)
    n = 0
    for vec in case["vecs"]:
        o, text = run_vec(prog, vec)
        n += 1
        for k in vec:
            if vec[k] and k in BOOL_OPTS:
                COUNTERS["opt_" + k] += 1
        COUNTERS["evidence_style_%d" % vec["ev_style"]] += 1
        if vec.get("cli"):
            COUNTERS["cli_runs"] += 1
        o2 = o
        if vec.get("label_all") and o["kind"] == "ok":
            o2 = o
        d = sut.same_outcome(base, o2)
        if d is not None:
            # input-class tags of the two recorded option defects
            tags = []
            if vec.get("propagate_evidence") and ev_on_ad:
                tags.append("propagate_evidence+evidence_on_AD_head")
            elif vec.get("propagate_evidence") and d[0] == "instance-set:zero-probability-instance":
                tags.append("propagate_evidence")
            if vec.get("pw") and not vec.get("propagate_evidence") and d[0] == "instance-set:zero-probability-instance" and F.get("extreme_p"):
                tags.append("propagate_weights+zero_probability_fact")
            if vec.get("keep_all"):
                tags.append("keep_all")
            cls_v = judge.input_class(F, propagate=bool(vec.get("propagate_evidence")))
            if cls_v != "clean":
                tags.append(cls_v)
            if base["kind"] == "ok" and o["kind"] == "ok":
                sig = "option-diff:%s" % d[0]
            else:
                sig = "option-diff:%s->%s" % (base.get("sig", base["kind"]), o.get("sig", o["kind"]))
            if tags:
                sig += "|" + "|".join(tags)
            return viol(sig, "options %s (evidence style %d) change the outcome: %s\n%s" % (vec_name(vec), vec["ev_style"], d[1], text),
                        feat=feats + [vec_name(vec)], sample=text)
    nt = R.nchoices >= 2 and (bool(prog["evidence"]) or F["extreme_p"])
    return ok(nontrivial=nt, feat=feats, sample=text0, n=n)


def floors(agg):
    c = agg["counters"]
    out = []
    for k in ["opt_" + o for o in BOOL_OPTS] + ["cli_runs", "evidence_style_1", "evidence_style_2", "reach:formula:LogicFormula.propagate"]:
        if not c.get(k):
            out.append("monitor %s is zero" % k)
    return out
