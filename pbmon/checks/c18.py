"""C18 Term equality is an equivalence consistent with hashing."""
import itertools

from ..core import ok, viol, COUNTERS, short_exc
from ..gen import terms as T

ID = "C18"
LEVEL = "exploration"
RULE = ("case = pool of ~25 problog term objects built from a seeded set of AST terms through several construction routes (public "
        "constructors Term/Constant/Var/Not/list2term, the parser, atoms as Constant vs Term, quoted vs unquoted atoms, \\+ vs not, "
        "ints vs floats vs numeric atoms, nested compounds and lists); on all pairs: == reflexive and symmetric, a == b implies "
        "hash(a) == hash(b) (checked directly and through dict/set membership), on all triples transitivity, and for ground terms "
        "a == b iff unify_value(a, b) succeeds; non-trivial = pool with >= 2 routes producing equal-looking terms; distinct by pool")
ASSUMPTIONS = ["'unification treats them as identical' is observed with problog.engine_unify.unify_value on ground terms (success without bindings)"]
LEVEL_TEXT = ("Tens of thousands of term pairs and triples built the ways user code and the engine build them are audited for the equivalence "
              "laws, hash consistency (also via real dict lookups) and agreement with the engine's own unifier.")
LEVEL_NOTE = "Pure in-process audit of problog.logic objects; bounded term depth 3."
TECHNIQUE = "runtime law audit (equivalence + hash consistency + unifier agreement) over constructed term pools"
BUDGET = {"quick": 4000, "thorough": 100000}
TIME_BUDGET = {"quick": 200, "thorough": 3000}
CASE_TIMEOUT = 60


def gen_case(rng, i, tier):
    base = [T.rand_term(rng, rng.choice([0, 0, 1, 2, 3]), ground=rng.random() < 0.8, small=True) for _ in range(6)]
    # near-duplicates: same term again, int<->float twins, atom<->numeric-atom twins
    extra = []
    for t in base[:4]:
        extra.append(t)
        extra.append(twin(rng, t))
    return dict(terms=base + extra, mode="rnd")


def twin(rng, t):
    if t[0] == "i":
        return rng.choice([["f", float(t[1])], ["a", str(t[1])], ["i", t[1]]])
    if t[0] == "f":
        return rng.choice([["i", int(t[1])], ["f", t[1]]])
    if t[0] == "a":
        return rng.choice([["s", t[1]], ["a", t[1]], ["c", t[1], [["i", 1]]]])
    if t[0] == "c" and t[2]:
        k = rng.randrange(len(t[2]))
        return ["c", t[1], [twin(rng, a) if j == k else a for j, a in enumerate(t[2])]]
    if t[0] == "l" and t[1]:
        k = rng.randrange(len(t[1]))
        return ["l", [twin(rng, a) if j == k else a for j, a in enumerate(t[1])], t[2]]
    return t


def build(t, route):
    """AST -> problog object by the given route"""
    from problog.logic import Term, Constant, Var, Not, list2term
    k = t[0]
    if route == "parse":
        return Term.from_string(T.txt(t))
    if k == "i" or k == "f":
        return Constant(t[1])
    if k == "s":
        return Constant('"%s"' % t[1])
    if k == "v":
        return Var(t[1])
    if k == "a":
        name = T.atom_txt(t[1])
        if route == "atom-as-constant":
            return Constant(name)
        if route == "atom-force-quoted" and not name.startswith("'") and name != "[]":
            return Term("'%s'" % name)
        return Term(name)
    if k == "c":
        return Term(T.atom_txt(t[1]), *[build(a, route) for a in t[2]])
    if k == "l":
        tail = build(t[2], route) if t[2] is not None else Term("[]")
        return list2term([build(a, route) for a in t[1]]) if t[2] is None else _mk_list([build(a, route) for a in t[1]], tail)
    raise ValueError(t)


def _mk_list(elems, tail):
    from problog.logic import Term
    cur = tail
    for e in reversed(elems):
        cur = Term(".", e, cur)
    return cur


def loose(t):
    """the term with numbers read as atoms of their text and quoting ignored (what problog's signature comparison sees)"""
    t = T.norm(t)
    if t[0] == "c":
        return ("c", t[1], tuple(loose(a) for a in t[2]))
    if t[0] == "i":
        return ("a", str(t[1]))
    if t[0] == "f":
        return ("a", repr(float(t[1])))
    return (t[0], str(t[1]))


ROUTES = ["ctor", "parse", "atom-as-constant", "atom-force-quoted"]


def kind(o):
    return type(o).__name__


def run_case(case):
    from problog.logic import Term, Constant, Not, is_ground
    from problog.engine_unify import unify_value, UnifyError
    pool = []
    for t in case["terms"]:
        for r in ROUTES:
            try:
                o = build(t, r)
            except Exception as e:  # noqa
                if r == "parse":
                    continue
                raise
            pool.append((o, r, T.txt(t), t))
        if t[0] in ("a", "c"):
            try:
                inner = build(t, "ctor")
                pool.append((Not("\\+", inner), "not-backslash", "\\+" + T.txt(t), ["c", "\\+", [t]]))
                pool.append((Not("not", inner), "not-word", "not " + T.txt(t), ["c", "\\+", [t]]))
                pool.append((-inner, "neg-operator", "-" + T.txt(t), ["c", "\\+", [t]]))
            except Exception:  # noqa
                pass
    vs = []
    n = 0

    def cls(a, b):
        return "%s/%s-%s/%s" % tuple(sorted([kind(a[0]), a[1]])[::-1] + sorted([kind(b[0]), b[1]])[::-1]) if False else \
            "-".join(sorted(["%s(%s)" % (kind(a[0]), a[1]), "%s(%s)" % (kind(b[0]), b[1])]))
    for a in pool:
        n += 1
        try:
            if not (a[0] == a[0]):
                vs.append(("eq:not-reflexive:%s" % kind(a[0]), "%s (%s) != itself" % (a[2], a[1])))
        except Exception as e:  # noqa
            vs.append(("eq:raises:%s" % type(e).__name__, "%s == itself raised %s" % (a[2], short_exc(e))))
    eqm = {}
    for (i, a), (j, b) in itertools.combinations(enumerate(pool), 2):
        n += 1
        try:
            ab, ba = (a[0] == b[0]), (b[0] == a[0])
        except Exception as e:  # noqa
            vs.append(("eq:raises:%s" % type(e).__name__, "%s == %s raised %s" % (a[2], b[2], short_exc(e))))
            continue
        eqm[i, j] = eqm[j, i] = ab
        if ab != ba:
            vs.append(("eq:not-symmetric:%s" % cls(a, b), "%s [%s] == %s [%s] is %r but the converse is %r" % (a[2], a[1], b[2], b[1], ab, ba)))
            continue
        if ab:
            try:
                ha, hb = hash(a[0]), hash(b[0])
            except Exception as e:  # noqa
                vs.append(("hash:raises:%s" % type(e).__name__, "hash raised %s" % short_exc(e)))
                continue
            if ha != hb:
                vs.append(("eq-but-different-hash:%s" % cls(a, b), "%r [%s %s] == %r [%s %s] but their hashes differ; as dict key: %r" % (
                    a[0], kind(a[0]), a[1], b[0], kind(b[0]), b[1], (b[0] in {a[0]: 1}))))
        # ground terms: equal <=> unify as identical
        try:
            ga, gb = is_ground(a[0]), is_ground(b[0])
        except Exception:  # noqa
            ga = gb = False
        if ga and gb and isinstance(a[0], Term) and isinstance(b[0], Term) and not isinstance(a[0], Not) and not isinstance(b[0], Not) \
                and a[1] != "neg-operator" and b[1] != "neg-operator":
            try:
                unify_value(a[0], b[0], {})
                un = True
            except UnifyError:
                un = False
            except Exception as e:  # noqa
                vs.append(("unify:raises:%s" % type(e).__name__, "unify_value(%r,%r) raised %s" % (a[0], b[0], short_exc(e))))
                continue
            COUNTERS["eq_vs_unify_pairs"] += 1
            if un != ab:
                why = "same-term-up-to-quoting-or-numeric-atom" if loose(a[3]) == loose(b[3]) else "different-terms"
                vs.append(("eq-vs-unify:%s:%s:%s" % ("equal-not-unifiable" if ab else "unifiable-not-equal", why, cls(a, b)),
                           "%r [%s %s] and %r [%s %s]: == is %r but unification %s" % (
                               a[0], kind(a[0]), a[1], b[0], kind(b[0]), b[1], ab, "succeeds" if un else "fails")))
    m = len(pool)
    for i in range(m):
        for j in range(m):
            if i != j and eqm.get((i, j)):
                for k in range(m):
                    if k != i and k != j and eqm.get((j, k)) and eqm.get((i, k)) is False:
                        vs.append(("eq:not-transitive", "%s == %s == %s but first != last" % (pool[i][2], pool[j][2], pool[k][2])))
    COUNTERS["pairs_audited"] += n
    # de-duplicate by signature inside the case
    seen, uniq = set(), []
    for v in vs:
        if v[0] not in seen:
            seen.add(v[0])
            uniq.append(v)
    if uniq:
        return viol(uniq[0][0], uniq[0][1], n=n, extra_viols=[list(x) for x in uniq[1:]], sample=[T.txt(t) for t in case["terms"][:4]])
    return ok(nontrivial=True, n=n, sample=[T.txt(t) for t in case["terms"][:4]])


def floors(agg):
    c = agg["counters"]
    return ["monitor %s is zero" % k for k in ("pairs_audited", "eq_vs_unify_pairs") if not c.get(k)]
