"""C25 Exported ground programs keep the original semantics (translation validation by re-evaluation)."""
import os
import re
import tempfile

from ..core import ok, viol, skip, COUNTERS
from ..gen import prog as G
from ..ref import worlds, boolfn as B
from .. import sut, judge, instrument, tv

ID = "C25"
LEVEL = "translation_validation"
RULE = ("case = generated program grounded with the options of the ground task (label_all, avoid_name_clash, keep_order) as "
        "LogicFormula and as LogicDAG (cycle breaking), exported with to_prolog() and through the ground CLI (--format pl, with and "
        "without --break-cycles); the exported text is re-parsed and re-evaluated by the real pipeline and every query probability "
        "must equal the original program's (and the possible-world reference); the CLI's DIMACS export (--format cnf) is re-read "
        "by an independent parser and must have exactly the models of the internal CNF (truth tables, <= 18 variables); "
        "non-trivial = export containing a rule with a body; distinct by program text")
ASSUMPTIONS = ["the re-evaluation uses the same engine, so only export defects (not inference defects) are observed",
               "evidence is part of the exported text and of the comparison"]
LEVEL_TEXT = "Every exported ground program / DIMACS file produced from the workload is validated against its own source by re-evaluation / model comparison."
LEVEL_NOTE = "Known export defects are keyed by a predicate on the exported text (see known_findings.json)."
TECHNIQUE = "runtime translation validation of exported ground programs (re-parse and re-evaluate; DIMACS model comparison)"
BUDGET = {"quick": 360, "thorough": 6000}
TIME_BUDGET = {"quick": 220, "thorough": 3300}
CASE_TIMEOUT = 60
WATCHDOG_FRACTION = 0.04


def setup_worker(tier):
    instrument.reach_install({"formula.py": ["LogicFormula.to_prolog", "LogicFormula.enum_clauses", "LogicFormula.extract_ads", "LogicFormula.get_body"],
                              "cnf_formula.py": ["CNF.to_dimacs"]})


def gen_case(rng, i, tier):
    p = G.gen(rng, stratified=True)
    if i % 3 == 0:
        # textually identical probabilistic ground lines: independent noisy-or causes that an exporter must keep apart
        L = G.L
        pr = rng.choice(G.PAL)
        p["clauses"] += [["rule", pr, L("dd", ["X"]), [L("dom", ["X"]), L("dom", ["Y"])]], ["fact", pr, L("ee")], ["fact", pr, L("ee")]]
        p["queries"] += [L("dd", [rng.choice(["_", 1])]), L("ee")]
    return dict(prog=p, route=["api_lf", "api_dag", "cli_pl", "cli_pl_bc", "cli_cnf"][i % 5])


class CliFailure(Exception):
    pass


def export(text, route):
    from problog.program import PrologString
    from problog.formula import LogicFormula, LogicDAG
    if route in ("api_lf", "api_dag"):
        cls = LogicFormula if route == "api_lf" else LogicDAG
        gp = cls.create_from(PrologString(text), label_all=True, avoid_name_clash=True, keep_order=True)
        return gp.to_prolog()
    from problog.tasks import ground
    fd, fn = tempfile.mkstemp(suffix=".pl")
    with os.fdopen(fd, "w") as f:
        f.write(text)
    out = fn + ".out"
    flags = {"cli_pl": ["--format", "pl"], "cli_pl_bc": ["--format", "pl", "--break-cycles"], "cli_cnf": ["--format", "cnf"]}[route]
    try:
        try:
            res = ground.main([fn, "-o", out] + flags, result_handler=lambda result, output: result)
        except SystemExit as ex:
            # the command line reports a failure by printing the error into the output file and exiting with a status: turn it back into
            # an exception whose type is the one named in that text, so that it is classified like the API routes
            try:
                with open(out) as f:
                    msg = f.read()[-800:]
            except OSError:
                msg = ""
            # the same export through the API raises the original exception (classified like the API routes)
            cls2 = LogicDAG if "--break-cycles" in flags else LogicFormula
            cls2.create_from(PrologString(text), label_all=True, avoid_name_clash=True, keep_order=True).to_prolog()
            m = re.findall(r"\b([A-Z][A-Za-z]*(?:Error|Exception|Cycle))\b", msg)
            raise CliFailure("%s: ground exited with status %s: %s" % (m[-1] if m else "UnknownError", ex.code, msg.strip()[-300:]))
        if res is not None and isinstance(res, tuple) and not res[0]:
            raise res[1]
        with open(out) as f:
            return f.read()
    finally:
        for x in (fn, out):
            try:
                os.unlink(x)
            except OSError:
                pass


def text_class(exported):
    """predicates on the exported text that key the recorded to_prolog defects"""
    tags = []
    heads = {}
    for line in exported.splitlines():
        m = re.match(r"^(?:[0-9.eE+-]+::)?((?:problog_cv_)?aux_\d+(?:_cb_\d+)?)\s*:-\s*(.*)\.$", line.strip())
        if m:
            heads.setdefault(m.group(1), set()).add(m.group(2))
    if any(len(b) > 1 for b in heads.values()):
        tags.append("aux-name-reused")
    defined = set(re.findall(r"^(?:[0-9.eE+-]+::)?([a-z_][A-Za-z0-9_]*)", exported, re.M))
    for line in exported.splitlines():          # further heads of annotated disjunctions
        if "::" in line:
            for m in re.finditer(r";\s*[0-9.eE+-]+::([a-z_][A-Za-z0-9_]*)", line.split(":-")[0]):
                defined.add(m.group(1))
    used = set(re.findall(r"(problog_cv_[A-Za-z0-9_]*)", exported))
    cyc = "problog_cv_" in exported
    # any atom in a clause body, a query or an evidence statement (renamed by cycle breaking, internal such as body_N / choice, or a
    # plain atom all of whose clauses were renamed) that no exported clause defines
    for line in exported.splitlines():
        body = None
        if ":-" in line:
            body = line.split(":-", 1)[1]
        else:
            m0 = re.match(r"^(?:query|evidence)\((.*)\)\.$", line.strip())
            if m0:
                body = m0.group(1) + "."
        if body is None:
            continue
        depth = 0
        tok = ""
        names = []
        for ch in body + ",":
            if ch == "(":
                if depth == 0:
                    names.append(tok.strip())
                depth += 1
                tok = ""
            elif ch == ")":
                depth -= 1
                tok = ""
            elif ch in ",." and depth == 0:
                if tok.strip():
                    names.append(tok.strip())
                tok = ""
            elif depth == 0:
                tok += ch
        for nm in names:
            nm = nm.replace("\\+", "").strip()
            if re.match(r"^[a-z][A-Za-z0-9_]*$", nm) and nm not in ("true", "fail", "false", "not"):
                used.add(nm)
    if any(u not in defined for u in used):
        tags.append("cycle-broken-name-undefined" if cyc else "internal-name-undefined")
    # copies of one atom (its own name and problog_cv_<x>_cb_<k>): a copy that lacks the probabilistic clause another copy has
    copies = {}
    for line in exported.splitlines():
        head = line.split(":-")[0]
        for m in re.finditer(r"(?:^|;\s*)([0-9.eE+-]+::)?((?:problog_cv_)?[a-z][A-Za-z0-9_]*?)(_cb_\d+)?(\([^)]*\))?\s*(?=[.;]|$)", head.strip()):
            name = m.group(2)
            if name.startswith("problog_cv_"):
                name = name[len("problog_cv_"):]
            if name.startswith(("body_", "aux_")) or name in ("query", "evidence"):
                continue
            base = name + (m.group(4) or "")
            key = m.group(3) or "plain"
            copies.setdefault(base, {}).setdefault(key, [])
            if m.group(1):
                copies[base][key].append(m.group(1))
    # the copies of one atom do not carry the same probabilistic clauses (one has a fact / AD head / probabilistic rule the other lacks)
    if cyc and any(len(v) > 1 and len({tuple(sorted(x)) for x in v.values()}) > 1 for v in copies.values()):
        tags.append("cycle-broken-copy-without-its-fact")
    return tags


def run_case(case):
    prog = case["prog"]
    F = G.features(prog)
    R = worlds.reference(prog, max_worlds=1 << 10, cyc_preds=G.cyclic_preds(prog))
    if R.status == "too_big":
        return skip("reference too big")
    F = G.refine_with_reference(F, R)
    cls = judge.input_class(F)
    feats = G.feat_list(F) + [case["route"]]
    text = G.to_text(prog)
    base = sut.evaluate_text(text)
    v = judge.judge(base, R, F)
    if v is not None:
        return viol("baseline:" + v[0], v[1] + "\n" + text, feat=feats, sample=text)
    if base["kind"] != "ok":
        return ok(nontrivial=False, feat=feats + ["baseline_" + base["kind"]], sample=text)
    try:
        exported = export(text, case["route"])
    except Exception as e:  # noqa
        o = sut.outcome_of_exception(e)
        tag = "" if cls == "clean" else "|" + cls
        try:
            # a cyclic definition that collapsed to true is kept as a disjunction whose only child is the constant TRUE
            from problog.program import PrologString
            from problog.formula import LogicFormula
            lf0 = LogicFormula.create_from(PrologString(text), label_all=True, avoid_name_clash=True, keep_order=True)
            if any(t != "atom" and any(c == 0 for c in n.children) for _i, n, t in lf0):
                tag = "|collapsed-true-node" + tag
        except Exception:  # noqa
            pass
        return viol("export:%s%s" % (o["sig"], tag), "exporting raised %s\n%s" % (sut.describe(o), text), feat=feats, sample=text)
    COUNTERS["exports_" + case["route"]] += 1
    if case["route"] == "cli_cnf":
        return check_dimacs(text, exported, feats)
    o = sut.evaluate_text(exported)
    tags = text_class(exported)
    # evidence on a node that is deterministically false/true is exported as a fact + evidence (sign lost)
    ev_const = [e for e, val in prog["evidence"] if G.lit_txt(e) in base["result"] and False]
    d = sut.same_outcome(base, o)
    if d is not None:
        # queries only: names that are not queries of the original are ignored (label_all adds labels, not queries)
        if base["kind"] == "ok" and o["kind"] == "ok":
            # a non-ground query without answers is reported as a zero-probability pattern (q(X2): 0) and cannot be exported
            ra = {k: val for k, val in base["result"].items() if sut.is_ground_name(k)}
            rb = {k: val for k, val in o["result"].items() if k in ra}
            d = sut.same_outcome(dict(kind="ok", result=ra), dict(kind="ok", result=rb))
    if d is not None:
        if re.search(r"^evidence\(", exported, re.M) and _evidence_on_constant(exported):
            tags.append("evidence-on-constant-node")
        sig = "reexport:%s" % (d[0] if (base["kind"] == "ok" and o["kind"] == "ok") else "%s->%s" % (base.get("sig", base["kind"]), o.get("sig", o["kind"])))
        sig += "".join("|" + t for t in tags)
        if cls != "clean":
            sig += "|" + cls
        return viol(sig, "re-evaluating the export (%s) differs from the original: %s\n--- original\n%s--- exported\n%s" % (
            case["route"], d[1], text, exported), feat=feats, sample=text)
    nt = ":-" in exported
    COUNTERS["tv_programs"] += 1
    return ok(nontrivial=nt, feat=feats, sample=text)


def _evidence_on_constant(exported):
    """is there evidence on an atom that the export defines as a plain fact or does not define at all?"""
    facts = set(re.findall(r"^([a-z][A-Za-z0-9_]*(?:\([^)]*\))?)\.$", exported, re.M))
    heads = set(re.findall(r"^(?:[0-9.eE+-]+::)?([a-z][A-Za-z0-9_]*(?:\([^)]*\))?)\s*(?::-|\.|;)", exported, re.M))
    for m in re.finditer(r"^evidence\((\\\+)?\s*([^,)]*(?:\([^)]*\))?)", exported, re.M):
        a = m.group(2).strip()
        if a in facts or a not in heads:
            return True
    return False


def check_dimacs(text, dimacs, feats):
    """the exported DIMACS must have exactly the models of the internal CNF"""
    from problog.program import PrologString
    from problog.formula import LogicDAG
    from problog.cnf_formula import CNF
    cnf = CNF.create_from(LogicDAG.create_from(PrologString(text), label_all=True, avoid_name_clash=True, keep_order=True))
    n = cnf.atomcount
    clauses = []
    header = None
    for line in dimacs.splitlines():
        line = line.strip()
        if not line or line.startswith("c"):
            continue
        if line.startswith("p"):
            header = line.split()
            continue
        lits = [int(x) for x in line.split()]
        if lits[-1] != 0:
            return viol("dimacs:unterminated-clause", line + "\n" + dimacs[:500], feat=feats, sample=text)
        clauses.append(lits[:-1])
    if header is None or header[1] != "cnf" or int(header[2]) != n or int(header[3]) != len(clauses):
        return viol("dimacs:header", "header %r, internal CNF has %d variables; %d clauses read" % (header, n, len(clauses)), feat=feats, sample=text)
    if n > 18 or n == 0:
        return skip("cnf too large or empty")
    FULL = B.full(n)
    var = {k + 1: B.var_table(k, n) for k in range(n)}

    def models(cls_):
        m = FULL
        for cl in cls_:
            t = 0
            for l in cl:
                t |= var[l] if l > 0 else FULL & ~var[-l]
            m &= t
        return m
    d1, c1 = tv.cnf_clauses(cnf)
    if models(clauses) != models(d1 + c1):
        return viol("dimacs:models-differ", "the DIMACS export has different models than the internal CNF\n" + dimacs[:800], feat=feats, sample=text)
    COUNTERS["dimacs_validated"] += 1
    COUNTERS["tv_programs"] += 1
    return ok(nontrivial=len(clauses) >= 3, feat=feats, sample=text)


def floors(agg):
    c = agg["counters"]
    return ["monitor %s is zero" % k for k in ("exports_api_lf", "exports_api_dag", "exports_cli_pl", "exports_cli_pl_bc", "dimacs_validated",
                                               "reach:formula:LogicFormula.to_prolog") if not c.get(k)]
