"""C14 Unification is sound and complete syntactic unification."""
from ..core import ok, viol, COUNTERS
from ..gen import terms as T
from ..ref import unify as U
from .. import sut

ID = "C14"
LEVEL = "exploration"
RULE = ("case = batch of term pairs over atoms (quoted/unquoted), ints, floats, f/1 g/2 h/3, lists with open tails and up to 4 "
        "shared/repeated variables (bounded-exhaustive pairs over a 60-term universe, then random pairs of depth <= 3, half of "
        "them made unifiable by construction); each pair goes through =/2 (bindings observed), \\=/2, a fact head and a rule "
        "head (bindings returned to the caller) and is compared with a Robinson unifier with occurs check; non-trivial = pair "
        "with a variable on both sides or a repeated variable; distinct by batch content")
ASSUMPTIONS = ["1 and 1.0 are different constants; strings unify only with identical strings",
               "an occurs-check pair may fail or raise a ProbLogError, it must not succeed"]
LEVEL_TEXT = ("The real engine resolves every generated pair four ways and the answers (success/failure and the bindings, up to "
              "variable renaming) are compared with an independent mgu; held on the pairs explored.")
LEVEL_NOTE = "Trusts pbmon/ref/unify.py (Robinson, ~90 lines) and the problog-Term -> AST converter in gen/terms.py."
TECHNIQUE = "runtime reference-model monitor (Robinson unifier) at the =/2, \\=/2 and clause-head boundaries"
BUDGET = {"quick": 4000, "thorough": 70000}
TIME_BUDGET = {"quick": 200, "thorough": 3000}
CASE_TIMEOUT = 90
PAIRS = 12
VARS = ["X", "Y", "Z", "W"]

_UNI = None


def universe():
    global _UNI
    if _UNI is None:
        v = [["v", "X"], ["v", "Y"]]
        c = [["a", "a"], ["i", 1], ["a", "hello world"], ["f", 1.0], ["a", "[]"]]
        l0 = v + c
        l1 = [["c", "f", [x]] for x in l0[:5]] + [["c", "g", [x, y]] for x in l0[:4] for y in l0[:4]] + \
             [["l", [x], None] for x in l0[:3]] + [["l", [l0[0]], l0[1]], ["l", [l0[2]], l0[0]]]
        l2 = [["c", "g", [x, y]] for x in l1[:5] for y in l0[:3]] + [["c", "f", [x]] for x in l1[5:12]]
        _UNI = l0 + l1 + l2
    return _UNI


def gen_case(rng, i, tier):
    Un = universe()
    npairs = len(Un) ** 2
    share = min((npairs + PAIRS - 1) // PAIRS, int(BUDGET[tier] * 0.5))
    if i < share:
        idxs = [i + k * share for k in range(PAIRS) if i + k * share < npairs]
        return dict(mode="exh", pairs=[[Un[j // len(Un)], Un[j % len(Un)]] for j in idxs])
    ps = []
    for _ in range(PAIRS):
        a = T.rand_term(rng, 3, nvars=4)
        if rng.random() < 0.5:
            b = generalise(rng, a)
        else:
            b = T.rand_term(rng, 3, nvars=4)
        if rng.random() < 0.5:
            a, b = b, a
        ps.append([a, b])
    return dict(mode="rnd", pairs=ps)


def generalise(rng, t, p=0.3):
    """replace random subterms by variables / other terms: often unifiable with t, sometimes needs occurs check"""
    if rng.random() < p:
        return ["v", rng.choice(VARS)]
    if t[0] == "c":
        return ["c", t[1], [generalise(rng, a, p) for a in t[2]]]
    if t[0] == "l":
        if rng.random() < 0.2 and len(t[1]) > 1:
            k = rng.randrange(1, len(t[1]))
            return ["l", [generalise(rng, a, p) for a in t[1][:k]], ["v", rng.choice(VARS)]]
        return ["l", [generalise(rng, a, p) for a in t[1]], t[2]]
    if rng.random() < 0.1:
        return T.rand_term(rng, 0, nvars=4)
    return t


def rename(t, m):
    if t[0] == "v":
        return ["v", m.get(t[1], t[1])]
    if t[0] == "c":
        return ["c", t[1], [rename(a, m) for a in t[2]]]
    if t[0] == "l":
        return ["l", [rename(a, m) for a in t[1]], rename(t[2], m) if t[2] is not None else None]
    return t


OUT = {"X": "R1", "Y": "R2", "Z": "R3", "W": "R4"}
APART = {"X": "U1", "Y": "U2", "Z": "U3", "W": "U4"}


def run_case(case):
    goals, meta, prelude = [], [], ["aux."]
    for k, (a, b) in enumerate(case["pairs"]):
        ta, tb = T.tup(a), T.tup(b)
        klass, s = U.classify(ta, tb)
        A, B = T.txt(rename(a, OUT)), T.txt(rename(b, OUT))
        # route 1: =/2 with all bindings exported
        goals.append("R5 = %s, R6 = %s, R5 = R6" % (A, B))
        exp = None
        if klass == "unif":
            exp = T.canon_vars(["c", "t", [U2l(U.subst(("v", v), s)) for v in VARS] + [U2l(U.subst(ta, s)), U2l(U.subst(tb, s))]], {})
        meta.append(("eq", a, b, klass, exp, klass == "unif" and U.chained(s)))
        # route 2: \=/2
        goals.append("%s \\= %s, R1 = y" % (T.txt(a), T.txt(b)))
        meta.append(("neq", a, b, klass, None, False))
        # route 3/4: clause heads (head variables renamed apart from the caller's)
        ha = rename(a, APART)
        tha = T.tup(ha)
        klass2, s2 = U.classify(tha, tb)
        exp2 = None
        if klass2 == "unif":
            exp2 = T.canon_vars(["c", "t", [U2l(U.subst(("v", v), s2)) for v in VARS] + [U2l(U.subst(tb, s2))]], {})
        prelude.append("hf%d(%s)." % (k, T.txt(ha)))
        prelude.append("hr%d(%s) :- aux." % (k, T.txt(ha)))
        goals.append("R5 = %s, hf%d(R5)" % (B, k))
        meta.append(("fact-head", ha, b, klass2, exp2, klass2 == "unif" and U.chained(s2)))
        goals.append("R5 = %s, hr%d(R5)" % (B, k))
        meta.append(("rule-head", ha, b, klass2, exp2, klass2 == "unif" and U.chained(s2)))
    res = sut.run_goals(goals, prelude="\n".join(prelude), outs=6)
    n = 0
    nt = False
    state = {"n": 0, "nt": False}

    def one(route, a, b, klass, exp, chained, r):
        n = state["n"]
        nt = state["nt"]
        state["n"] += 1
        n = state["n"]
        COUNTERS["route_%s_%s" % (route, klass)] += 1
        va, vb = T.variables(a), T.variables(b)
        if (va and vb) or len(va) < sum(1 for _ in _var_occ(a)) or len(vb) < sum(1 for _ in _var_occ(b)):
            state["nt"] = nt = True
        pair = "%s  ~  %s" % (T.txt(a), T.txt(b))
        if isinstance(r, dict):
            if r["kind"] == "problog_error" and klass in ("occ", "occ_indirect", "no_or_occ"):
                return None
            if r["exc"] == "OccursCheck" and klass == "no" and U.shares_vars(T.tup(a), T.tup(b)):
                # not unifiable anyway; the engine met an occurs violation before it met the clash
                return None
            return viol("unify:%s:%s:error:%s" % (route, klass, r["exc"]), "%s via %s raised %s (reference class %s)" % (
                pair, route, sut.describe(r), klass), sample=pair, nontrivial=nt, n=n)
        succ = len(r) > 0
        if route == "neq":
            want = {"unif": False, "no": True}.get(klass)
            if want is not None and succ != want:
                return viol("unify:neq:%s%s" % (klass, "|negative-int-constant" if (_has_negint(a) or _has_negint(b)) else ""), "%s: \\= %s but the terms are %s" % (
                    pair, "succeeds" if succ else "fails", "unifiable" if klass == "unif" else "not unifiable"), sample=pair, n=n)
            return None
        if klass in ("no", "occ", "occ_indirect", "no_or_occ"):
            if succ:
                kfc = ""
                if route in ("fact-head", "rule-head") and U.repeated_vars_both(T.tup(a), T.tup(b)):
                    kfc = "|repeated-head-and-call-vars"
                return viol("unify:%s:%s-succeeds%s" % (route, klass, kfc), "%s via %s succeeds with %s but the terms are %s" % (
                    pair, route, [str(x) for x in r[0]], {"no": "not unifiable", "occ": "unifiable only with a cyclic binding",
                                                         "occ_indirect": "unifiable only with a cyclic binding (cycle through two or more bindings)",
                                                         "no_or_occ": "not unifiable"}[klass]), sample=pair, n=n)
            return None
        if not succ:
            return viol("unify:%s:unifiable-fails" % route, "%s via %s fails but an mgu exists" % (pair, route), sample=pair, n=n)
        if len(r) > 1:
            return viol("unify:%s:multiple-answers" % route, "%s via %s gave %d answers" % (pair, route, len(r)), sample=pair, n=n)
        try:
            outs = [T.from_pl(x) for x in r[0]]
        except ValueError as e:
            return viol("unify:%s:unreadable-answer" % route, "%s: %s" % (pair, e), sample=pair, n=n)
        if route == "eq":
            got = T.canon_vars(["c", "t", outs], {})
        else:
            got = T.canon_vars(["c", "t", outs[:5]], {})
        if got != exp:
            kfc = ""
            if route in ("fact-head", "rule-head", "eq") and (_has_negint(a) or _has_negint(b)):
                kfc = "|negative-int-constant"
            elif route in ("fact-head", "rule-head") and U.repeated_vars_both(T.tup(a), T.tup(b)):
                kfc = "|repeated-head-and-call-vars"
            return viol("unify:%s:wrong-binding%s" % (route, kfc), "%s via %s: bindings %s differ from the mgu %s" % (
                pair, route, _show(got), _show(exp)), sample=pair, n=n)
        return None
    vs = []
    for (route, a, b, klass, exp, chained), r in zip(meta, res):
        v = one(route, a, b, klass, exp, chained, r)
        if v is not None:
            vs.append(v)
    n, nt = state["n"], state["nt"]
    if vs:
        first = vs[0]
        first["extra_viols"] = [[x["sig"], x["detail"]] for x in vs[1:]]
        first["nontrivial"] = nt
        first["n"] = n
        return first
    return ok(nontrivial=nt, feat=[case["mode"]], n=n, sample=[[T.txt(a), T.txt(b)] for a, b in case["pairs"][:3]])


def _has_negint(t):
    if t[0] == "i":
        return t[1] < 0
    if t[0] == "c":
        return any(_has_negint(a) for a in t[2])
    if t[0] == "l":
        return any(_has_negint(a) for a in t[1]) or (t[2] is not None and _has_negint(t[2]))
    return False


def _var_occ(t):
    if t[0] == "v":
        yield t
    elif t[0] == "c":
        for a in t[2]:
            for x in _var_occ(a):
                yield x
    elif t[0] == "l":
        for a in t[1]:
            for x in _var_occ(a):
                yield x
        if t[2] is not None:
            for x in _var_occ(t[2]):
                yield x


def U2l(t):
    """tuple term -> list AST"""
    if t[0] == "c":
        return ["c", t[1], [U2l(a) for a in t[2]]]
    return list(t)


def _show(t):
    if t[0] == "c":
        return "%s(%s)" % (t[1], ",".join(_show(a) for a in t[2]))
    return str(t[1])


def floors(agg):
    c = agg["counters"]
    need = ["route_eq_unif", "route_eq_no", "route_eq_occ", "route_fact-head_unif", "route_rule-head_unif", "route_rule-head_occ", "route_neq_no"]
    return ["class %s never exercised" % k for k in need if not c.get(k)]
