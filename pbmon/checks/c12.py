"""C12 Built-in semirings obey their algebra and documented defaults (contracts + direct law evaluation)."""
import itertools
import math

from ..core import ok, viol, COUNTERS, short_exc

ID = "C12"
LEVEL = "exploration"
NEEDS_DEPS = True
RULE = ("case = batch of value triples (bounded-exhaustive grid incl. 0, 1, 1e-15, 1-1e-15, 1e-300 then seeded random) on which "
        "commutativity, associativity, identities, annihilation, distributivity, the log/prob homomorphism "
        "(plus,times,negate,normalize,value,ad_complement), symbolic-expression evaluation and the base-class defaults are "
        "evaluated on the real Semiring classes with icontract post-conditions switched on; non-trivial = batch with >= 10 "
        "triples not all in {0,1}; distinct by batch content")
ASSUMPTIONS = ["tolerance 1e-9 absolute + 1e-9 relative in probability space (the log semiring maps values < 1e-9 to zero by design)",
               "log-image laws are compared after flooring inputs < 1e-9 to 0 (documented behaviour of SemiringLogProbability.value); normalize only for z >= 1e-6, a <= z"]
LEVEL_TEXT = ("Every law the property names is evaluated on the real classes over a boundary-heavy grid and random values, with "
              "icontract ensure-contracts on plus/times/negate counting their evaluations; the same contracts are reused under "
              "whole-program workloads (C05).")
LEVEL_NOTE = "Trusts Python float arithmetic and a 10-line whitelist evaluator for symbolic expressions."
TECHNIQUE = "runtime contracts (icontract ensure) + algebraic-law oracle over bounded-exhaustive and random values"
BUDGET = {"quick": 400, "thorough": 8000}
TIME_BUDGET = {"quick": 120, "thorough": 1200}

GRID = [0.0, 1.0, 1e-15, 1 - 1e-15, 1e-300, 0.5, 0.25, 0.1, 0.9, 1e-9, 1e-12, 0.3, 0.7, 1.0 / 3, 1e-6, 0.999999]
TRIPLES = list(itertools.product(range(len(GRID)), repeat=3))
CHUNK = 64
_S = {}


class ContractBroken(Exception):
    pass


def close(x, y, tol=1e-9):
    if x == y:
        return True
    if isinstance(x, str) or isinstance(y, str):
        return False
    if math.isnan(x) or math.isnan(y):
        return False
    if math.isinf(x) or math.isinf(y):
        return False
    return abs(x - y) <= tol + tol * max(abs(x), abs(y))


def lclose(x, y):
    """closeness of two log-space values, judged in probability space"""
    if x == y:
        return True
    try:
        return close(math.exp(x), math.exp(y))
    except OverflowError:
        return False


def install_contracts():
    """icontract post-conditions on the real semiring operations (also used by C05)."""
    import icontract
    from problog.evaluator import SemiringProbability, SemiringLogProbability
    if _S.get("contracts"):
        return
    _S["contracts"] = True
    for cls, cl in ((SemiringProbability, close), (SemiringLogProbability, lclose)):
        plus0, times0 = cls.plus, cls.times
        name = cls.__name__

        def plus_commutes(self, a, b, result, plus0=plus0, cl=cl, cls=cls, name=name):
            if type(self) is not cls:
                return True
            COUNTERS["contract:%s.plus" % name] += 1
            return cl(result, plus0(self, b, a)) and (not self.is_zero(b) or cl(result, a))

        def times_commutes(self, a, b, result, times0=times0, cl=cl, cls=cls, name=name):
            if type(self) is not cls:
                return True
            COUNTERS["contract:%s.times" % name] += 1
            return cl(result, times0(self, b, a)) and (not self.is_zero(b) or self.is_zero(result)) and \
                (not self.is_one(b) or cl(result, a))
        cls.plus = icontract.ensure(plus_commutes, error=ContractBroken)(cls.plus)
        cls.times = icontract.ensure(times_commutes, error=ContractBroken)(cls.times)


_TIER = {}


def prepare(scratch, env, tier):
    _TIER["tier"] = tier


def collect(scratch, recs, counters):
    # thorough tier: the repository's own 273 tests run once more with these contracts switched on
    if _TIER.get("tier") == "thorough":
        from .. import suite
        suite.run_suite("c12", scratch, recs, counters)


def setup_worker(tier):
    install_contracts()


def gen_case(rng, i, tier):
    nch = (len(TRIPLES) + CHUNK - 1) // CHUNK
    if i < nch:
        tr = [[GRID[a], GRID[b], GRID[c]] for a, b, c in TRIPLES[i * CHUNK:(i + 1) * CHUNK]]
        return dict(mode="grid", triples=tr)
    tr = []
    for _ in range(CHUNK):
        def v():
            r = rng.random()
            if r < 0.15:
                return rng.choice(GRID)
            if r < 0.3:
                return 10 ** rng.uniform(-12, 0)
            if r < 0.4:
                return 1 - 10 ** rng.uniform(-12, -1)
            return rng.random()
        tr.append([v(), v(), v()])
    return dict(mode="rnd", triples=tr)


def sym_eval(s):
    """evaluate a symbolic-semiring expression: whitelist grammar of floats, + - * / ( )"""
    import re
    if not re.fullmatch(r"[0-9eE\.\+\-\*/\(\) ]*", s):
        raise ValueError("unexpected characters in symbolic expression %r" % s)
    return eval(s, {"__builtins__": {}}, {})  # noqa: S307 - whitelisted characters only


def _s1(R, x, y, z):
    return R.negate(R.times(R.negate(x), R.negate(y)))


def _s2(R, x, y, z):
    return R.negate(R.negate(R.times(x, R.negate(z))))


def _s3(R, x, y, z):
    return R.times(R.negate(R.times(R.negate(x), R.negate(y))), R.negate(R.times(R.negate(y), R.negate(z))))


def _s4(R, x, y, z):
    return R.negate(R.plus(R.times(x, R.negate(y)), R.times(R.negate(x), R.times(y, z))))


def _s5(R, x, y, z):
    return R.plus(R.times(R.negate(R.negate(x)), y), R.times(R.negate(R.times(R.negate(x), R.negate(z))), R.negate(y)))


def _s6(R, x, y, z):
    return R.negate(R.times(R.negate(R.times(x, y)), R.negate(R.times(R.negate(y), R.negate(R.times(z, x))))))


SHAPES = [_s1, _s2, _s3, _s4, _s5, _s6]


def run_case(case):
    from problog.evaluator import Semiring, SemiringProbability, SemiringLogProbability, SemiringSymbolic
    from problog.errors import ProbLogError
    P, Lg, S = SemiringProbability(), SemiringLogProbability(), SemiringSymbolic()
    n = 0
    bad = None

    def fail(law, detail):
        return viol("law:" + law, detail, sample=case["triples"][:3])
    try:
        for a, b, c in case["triples"]:
            # ---------------- probability semiring
            for nm, sr, cl, conv in (("prob", P, close, lambda x: x), ("log", Lg, lclose, None)):
                if nm == "log":
                    x, y, z = Lg.value(a), Lg.value(b), Lg.value(c)
                else:
                    x, y, z = a, b, c
                one, zero = sr.one(), sr.zero()
                checks = [
                    ("plus-commutative", sr.plus(x, y), sr.plus(y, x)),
                    ("times-commutative", sr.times(x, y), sr.times(y, x)),
                    ("plus-associative", sr.plus(sr.plus(x, y), z), sr.plus(x, sr.plus(y, z))),
                    ("times-associative", sr.times(sr.times(x, y), z), sr.times(x, sr.times(y, z))),
                    ("plus-identity", sr.plus(x, zero), x),
                    ("times-identity", sr.times(x, one), x),
                    ("times-annihilation", sr.times(x, zero), zero),
                    ("distributive", sr.times(x, sr.plus(y, z)), sr.plus(sr.times(x, y), sr.times(x, z))),
                ]
                for law, l, r in checks:
                    n += 1
                    if not cl(l, r):
                        return fail("%s:%s" % (nm, law), "%s on (%r,%r,%r): %r vs %r" % (law, a, b, c, l, r))
                n += 2
                if not sr.is_one(one) or not sr.is_zero(zero) or sr.is_one(zero) or sr.is_zero(one):
                    return fail("%s:is_one/is_zero" % nm, "is_one(one())/is_zero(zero()) wrong")
            # ---------------- log is the logarithmic image of prob
            la, lb = Lg.value(a), Lg.value(b)
            a0, b0 = a, b
            a, b = (0.0 if a < 1e-9 else a), (0.0 if b < 1e-9 else b)  # the log semiring floors values < 1e-9 to zero by design
            hom = [("times", P.times(a, b), Lg.result(Lg.times(la, lb))),
                   ("negate", P.negate(a), Lg.result(Lg.negate(la))),
                   ("value", P.value(a), Lg.result(la)),
                   ("result_one", P.result_one(), Lg.result_one()), ("result_zero", P.result_zero(), Lg.result_zero()),
                   ("pos_value", P.pos_value(a), Lg.result(Lg.pos_value(a))),
                   ("neg_value", P.neg_value(a), Lg.result(Lg.neg_value(a)))]
            if a + b <= 1.0:
                hom.append(("plus", P.plus(a, b), Lg.result(Lg.plus(la, lb))))
                hom.append(("ad_complement", P.ad_complement([a, b]), Lg.result(Lg.ad_complement([la, lb]))))
            if b >= 1e-6 and a <= b:
                hom.append(("normalize", P.normalize(a, b), Lg.result(Lg.normalize(la, lb))))
            for law, l, r in hom:
                n += 1
                if not close(l, r):
                    return fail("log-image:" + law, "%s on (%r,%r): prob %r vs exp(log) %r" % (law, a, b, l, r))
            a, b = a0, b0
            n += 1
            if P.in_domain(a) != Lg.in_domain(la):
                return fail("log-image:in_domain", "in_domain differs for %r" % a)
            # ---------------- symbolic semiring (laws hold for the values the expressions denote)
            sx, sy, sz = S.value(repr(a)), S.value(repr(b)), S.value(repr(c))
            if all(v >= 1e-300 or v == 0 for v in (a, b, c)):
                sym = [("plus-commutative", S.plus(sx, sy), S.plus(sy, sx)), ("times-commutative", S.times(sx, sy), S.times(sy, sx)),
                       ("plus-associative", S.plus(S.plus(sx, sy), sz), S.plus(sx, S.plus(sy, sz))),
                       ("times-associative", S.times(S.times(sx, sy), sz), S.times(sx, S.times(sy, sz))),
                       ("plus-identity", S.plus(sx, S.zero()), sx), ("times-identity", S.times(sx, S.one()), sx),
                       ("times-annihilation", S.times(sx, S.zero()), S.zero()),
                       ("distributive", S.times(sx, S.plus(sy, sz)), S.plus(S.times(sx, sy), S.times(sx, sz))),
                       ("plus-denotes", S.plus(sx, sy), repr(a + b)), ("times-denotes", S.times(sx, S.plus(sy, sz)), repr(a * (b + c))),
                       ("negate-denotes", S.negate(S.times(sx, sy)), repr(1 - a * b)),
                       ("times-of-negate", S.times(S.negate(sx), S.negate(sy)), repr((1 - a) * (1 - b)))]
                # nested expressions: the symbolic result must denote what the probability semiring computes
                for shape in SHAPES:
                    sym.append(("nested:" + shape.__name__, shape(S, sx, sy, sz), repr(shape(P, a, b, c))))
                for law, l, r in sym:
                    n += 1
                    try:
                        lv = float(sym_eval(l))
                    except (SyntaxError, ValueError, TypeError, ZeroDivisionError) as e:
                        return fail("symbolic:malformed-expression", "%s on (%r,%r,%r): expression %r cannot be evaluated: %s" % (
                            law, a, b, c, l, short_exc(e)))
                    if not close(lv, float(sym_eval(r))):
                        return fail("symbolic:" + law, "%s on (%r,%r,%r): %r vs %r" % (law, a, b, c, l, r))
                n += 1
                if not S.is_one(S.one()) or not S.is_zero(S.zero()):
                    return fail("symbolic:is_one/is_zero", "SemiringSymbolic: is_one(one())=%r is_zero(zero())=%r" % (
                        S.is_one(S.one()), S.is_zero(S.zero())))
                n += 1
                if S.normalize(sx, S.one()) != sx:
                    return fail("symbolic:normalize-one", "normalize(a, one()) != a")

            # ---------------- base-class defaults on a minimal subclass
            class Mini(Semiring):
                def one(self):
                    return 1.0

                def zero(self):
                    return 0.0

                def plus(self, x, y):
                    return x + y

                def times(self, x, y):
                    return x * y
            m = Mini()
            n += 3
            if not m.is_one(m.one()):
                return fail("base:is_one", "Semiring.is_one(one()) is False for a minimal subclass")
            if not m.is_zero(m.zero()):
                return fail("base:is_zero", "Semiring.is_zero(zero()) is False for a minimal subclass")
            try:
                if m.normalize(a, m.one()) != a:
                    return fail("base:normalize", "normalize(a, one()) != a")
            except ProbLogError as e:
                return fail("base:normalize", "normalize(%r, one()) raised %s" % (a, short_exc(e)))
    except ContractBroken as e:
        return viol("contract", short_exc(e), sample=case["triples"][:3])
    COUNTERS["laws_evaluated"] += n
    nt = len(case["triples"]) >= 10 and any(v not in (0.0, 1.0) for t in case["triples"] for v in t)
    return ok(nontrivial=nt, feat=[case["mode"]], n=n, sample=case["triples"][:2])


def floors(agg):
    c = agg["counters"]
    return ["contract %s never evaluated" % k for k in ("contract:SemiringProbability.plus", "contract:SemiringLogProbability.plus",
                                                       "contract:SemiringProbability.times") if not c.get(k)]
