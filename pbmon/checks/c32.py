"""C32 Weighted selection library predicates define the documented distribution."""
from fractions import Fraction as F

from ..core import ok, viol, COUNTERS
from .. import sut, instrument

ID = "C32"
LEVEL = "exploration"
RULE = ("case = list of 1-6 elements (atoms/ints, equal elements allowed) with random positive integer/float weights (equal weights "
        "allowed) and several identifiers; queries on select_weighted/5, select_weighted/4 (list of (W,V) pairs), select_uniform/4 "
        "and on conjunctions of two calls with the same and with different identifiers; every reported (Value, Rest) instance must "
        "have probability w_i / sum(w) (instances that coincide are added), the rest list must be the input minus the chosen "
        "position in order, the probabilities must add up to 1, and two calls with one identifier must make the same choice; "
        "non-trivial = list with >= 3 elements; distinct by query text")
ASSUMPTIONS = ["closed-form oracle computed with exact rationals for integer weights; tolerance 1e-9"]
LEVEL_TEXT = "Random lists and weights are pushed through the real library clauses (sw/sw_p) and compared with the closed-form distribution."
LEVEL_NOTE = "Only library(lists) selection predicates; exploration over lists up to length 6."
TECHNIQUE = "runtime closed-form oracle over generated inputs"
BUDGET = {"quick": 500, "thorough": 8000}
TIME_BUDGET = {"quick": 200, "thorough": 3000}
CASE_TIMEOUT = 40


def setup_worker(tier):
    instrument.reach_install({"engine_builtin.py": ["_builtin_is"]})


def gen_case(rng, i, tier):
    n = rng.randint(1, 6)
    pool = ["a", "b", "c", "d", 1, 2, 3]
    vals = [rng.choice(pool) for _ in range(n)] if rng.random() < 0.4 else rng.sample(pool, n)
    if rng.random() < 0.5:
        ws = [rng.randint(1, 9) for _ in range(n)]
    else:
        ws = [rng.choice([0.5, 1.5, 2.0, 0.25, 3.0, 1.0]) for _ in range(n)]
    if rng.random() < 0.3:
        ws = [ws[0]] * n
    elif rng.random() < 0.3 and n >= 3:
        # every position has the same conditional ratio w_i / (w_i + ... + w_n): e.g. [4,2,1,1]
        ws = [2 ** (n - 2 - k) for k in range(n - 1)] + [1]
        vals = [rng.choice(["a", "b"]) for _ in range(n)]
    mode = rng.choice(["sw5", "sw5", "sw4", "uniform", "pair_same", "pair_diff"])
    return dict(vals=vals, ws=ws, mode=mode, id1=rng.choice(["i1", "t(1)", "7"]), id2=rng.choice(["i2", "t(2)", "8"]))


def lst(xs):
    return "[%s]" % ",".join(str(x) for x in xs)


def run_case(case):
    vals, ws, mode = case["vals"], case["ws"], case["mode"]
    n = len(vals)
    tot = sum(F(str(w)) for w in ws)
    if mode == "uniform":
        pr = [F(1, n)] * n
    else:
        pr = [F(str(w)) / tot for w in ws]
    W, Vs = lst(ws), lst(vals)
    exp = {}
    if mode in ("sw5", "sw4", "uniform"):
        if mode == "sw5":
            body = "select_weighted(%s, %s, %s, V, R)" % (case["id1"], W, Vs)
        elif mode == "sw4":
            body = "select_weighted(%s, [%s], V, R)" % (case["id1"], ",".join("(%s,%s)" % (w, v) for w, v in zip(ws, vals)))
        else:
            body = "select_uniform(%s, %s, V, R)" % (case["id1"], Vs)
        text = ":- use_module(library(lists)).\nq(V,R) :- %s.\nquery(q(_,_)).\n" % body
        for k in range(n):
            rest = vals[:k] + vals[k + 1:]
            key = "q(%s,%s)" % (vals[k], lst(rest))
            exp[key] = exp.get(key, F(0)) + pr[k]
    else:
        same = mode == "pair_same"
        id2 = case["id1"] if same else case["id2"]
        text = (":- use_module(library(lists)).\nq(A,B) :- select_weighted(%s, %s, %s, A, _), select_weighted(%s, %s, %s, B, _).\n"
                "query(q(_,_)).\n" % (case["id1"], W, Vs, id2, W, Vs))
        for k in range(n):
            for m in range(n):
                if same and k != m:
                    continue
                p = pr[k] if same else pr[k] * pr[m]
                key = "q(%s,%s)" % (vals[k], vals[m])
                exp[key] = exp.get(key, F(0)) + p
    o = sut.evaluate_text(text)
    COUNTERS["mode_" + mode] += 1
    if o["kind"] != "ok":
        return viol("select:%s:%s" % (mode, o["sig"]), "problog raised %s\n%s" % (sut.describe(o), text), sample=text)
    got = {k.replace(" ", ""): v for k, v in o["result"].items()}
    for k, p in exp.items():
        if abs(got.get(k, 0.0) - float(p)) > 1e-9:
            return viol("select:%s:wrong-probability" % mode, "%s: problog %.10g, documented distribution %.10g (reported %s)\n%s" % (
                k, got.get(k, 0.0), float(p), {g: round(v, 6) for g, v in sorted(got.items())}, text), sample=text)
    for k, v in got.items():
        if k not in exp and abs(v) > 1e-9:
            return viol("select:%s:extra-instance" % mode, "%s reported with %.10g (expected instances %s)\n%s" % (k, v, sorted(exp), text), sample=text)
    return ok(nontrivial=n >= 3, feat=[mode], sample=text, n=len(exp))


def floors(agg):
    c = agg["counters"]
    return ["mode %s never run" % m for m in ("sw5", "sw4", "uniform", "pair_same", "pair_diff") if not c.get("mode_" + m)]
