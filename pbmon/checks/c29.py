"""C29 Extending a prepared database is equivalent to preparing the union."""
from ..core import ok, viol, skip, COUNTERS
from ..gen import prog as G
from ..ref import worlds
from .. import sut, judge, instrument

ID = "C29"
LEVEL = "exploration"
RULE = ("case = generated base program P prepared once, then a seeded history: child = db.extend(), clauses added to the child (facts, "
        "rules and ADs for NEW and for EXISTING predicates, including clauses whose argument keys already exist in the parent's "
        "index), a second level extension or a sibling extension, and queries on parent, child, sibling interleaved; the answers and "
        "probabilities on each extension must equal those of preparing P plus its added clauses from scratch (and the possible-world "
        "reference), queries on P must be unchanged and the parent's node list must be byte-identical to the snapshot taken before; "
        "non-trivial = history that adds a clause to a predicate defined in the parent; distinct by program + history")
ASSUMPTIONS = ["a fresh engine is used per evaluation", "the union program lists the added clauses after the parent's clauses"]
LEVEL_TEXT = ("Extension histories are replayed on the real ClauseDB with redirect events counted; children are compared with union programs, "
              "parents with their own earlier answers and a structural snapshot.")
LEVEL_NOTE = "Known engine findings on the non-clean input class apply as in C01."
TECHNIQUE = "runtime history monitor (extension histories vs union programs + parent snapshot)"
BUDGET = {"quick": 280, "thorough": 4500}
TIME_BUDGET = {"quick": 200, "thorough": 3000}
CASE_TIMEOUT = 60
WATCHDOG_FRACTION = 0.04

_red = {"n": 0}


def setup_worker(tier):
    from problog.clausedb import ClauseDB
    orig = ClauseDB._add_head

    def add_head(self, head, create=True):
        before = len(getattr(self, "_ClauseDB__node_redirect"))
        r = orig(self, head, create)
        if len(getattr(self, "_ClauseDB__node_redirect")) > before:
            COUNTERS["redirect_events"] += 1
            _red["n"] += 1
        return r
    ClauseDB._add_head = add_head
    instrument.reach_install({"clausedb.py": ["ClauseDB.extend", "ClauseIndex.find"]})


def gen_case(rng, i, tier):
    p = G.gen(rng, stratified=True, n_evidence=rng.choice([0, 0, 1]))
    cl = p["clauses"]
    movable = [k for k, c in enumerate(cl) if not (c[0] == "rule" and c[2][0] == "dom")]
    rng.shuffle(movable)
    nadd = rng.randint(1, max(1, min(5, len(movable) // 2)))
    added = sorted(movable[:nadd])
    # extra clauses for existing predicates with argument keys that already exist in the parent
    extra = []
    facts = [c for c in cl if c[0] == "fact"]
    if facts and rng.random() < 0.7:
        f = rng.choice(facts)
        extra.append(["fact", rng.choice(G.PAL), [f[2][0], list(f[2][1]), False]])
    split = rng.randint(0, len(added))
    return dict(prog=p, added=added, extra=extra, split=split, sibling=(i % 3 == 0))


def evaluate_db(db):
    from problog import get_evaluatable
    from problog.engine import DefaultEngine
    try:
        res = get_evaluatable().create_from(db, engine=DefaultEngine()).evaluate()
        return dict(kind="ok", result={str(k): v for k, v in res.items()})
    except Exception as e:  # noqa
        return sut.outcome_of_exception(e)


def snapshot(db):
    return [len(db)] + [repr(db.get_node(k)) for k in range(len(db))]


def run_case(case):
    from problog.program import PrologString
    from problog.engine import DefaultEngine
    _red["n"] = 0
    prog = case["prog"]
    cl = prog["clauses"]
    base_idx = [k for k in range(len(cl)) if k not in case["added"]]
    base = dict(prog, clauses=[cl[k] for k in base_idx])
    add1 = [cl[k] for k in case["added"][:case["split"]]]
    add2 = [cl[k] for k in case["added"][case["split"]:]] + case["extra"]
    # every predicate must stay defined in the parent (otherwise the parent program raises UnknownClause)
    full = dict(prog, clauses=[cl[k] for k in base_idx] + add1 + add2)
    F = G.features(full)
    R = worlds.reference(full, max_worlds=1 << 10, cyc_preds=G.cyclic_preds(full))
    if R.status == "too_big":
        return skip("reference too big")
    F = G.refine_with_reference(F, R)
    cls = judge.input_class(F)
    feats = G.feat_list(F)
    base_text = G.to_text(base)
    eng = DefaultEngine()
    try:
        db = eng.prepare(PrologString(base_text))
    except Exception as e:  # noqa
        o = sut.outcome_of_exception(e)
        return viol("prepare:%s" % o["sig"], sut.describe(o) + "\n" + base_text, feat=feats, sample=base_text)
    snap = snapshot(db)
    parent_before = evaluate_db(db)
    hist = []

    def add_all(target, clauses):
        for c in clauses:
            for stmt in PrologString(G.clause_txt(c)):
                target += stmt
            hist.append(G.clause_txt(c))
    try:
        child = db.extend()
        add_all(child, add1)
        mid = evaluate_db(child)            # interleaved query on the half-built child
        parent_mid = evaluate_db(db)
        grand = child.extend()
        add_all(grand, add2)
        sib = None
        if case["sibling"]:
            sib = db.extend()               # sibling sees only the parent
            add_all(sib, case["extra"])
        out_grand = evaluate_db(grand)
        out_child = evaluate_db(child)
        out_sib = evaluate_db(sib) if sib is not None else None
        parent_after = evaluate_db(db)
    except Exception as e:  # noqa
        o = sut.outcome_of_exception(e)
        return viol("extend:%s|%s" % (o["sig"], cls), "history raised %s\n%s\nadded: %s" % (sut.describe(o), base_text, hist), feat=feats,
                    sample=base_text)
    text = base_text + "%% added to extensions: " + " ".join(hist)
    tag = "" if cls == "clean" else "|" + cls
    # parent isolation
    if snapshot(db) != snap:
        return viol("parent-modified:structure", "the parent's node list changed after extending\n" + text, feat=feats, sample=text)
    for name, other in (("mid", parent_mid), ("after", parent_after)):
        d = sut.same_outcome(parent_before, other)
        if d is not None:
            return viol("parent-modified:answers%s" % tag, "parent answers changed (%s): %s\n%s" % (name, d[1], text), feat=feats, sample=text)
    # children == union programs
    def union(clauses):
        return sut.evaluate_text(G.to_text(dict(prog, clauses=[cl[k] for k in base_idx] + clauses)))
    for name, got, exp in (("child", out_child, union(add1)), ("grandchild", out_grand, union(add1 + add2)),
                           ("child-before-grandchild", mid, union(add1))) + \
            ((("sibling", out_sib, union(case["extra"])),) if out_sib is not None else ()):
        d = sut.same_outcome(exp, got)
        if d is not None:
            if exp["kind"] == "ok" and got["kind"] == "ok":
                sig = "extension-diff:%s%s" % (d[0], tag)
            else:
                sig = "extension-diff:%s->%s%s" % (exp.get("sig", exp["kind"]), got.get("sig", got["kind"]), tag)
            return viol(sig, "%s differs from preparing the union: %s (union vs extension)\n%s" % (name, d[1], text), feat=feats, sample=text)
    v = judge.judge(out_grand, R, F)
    if v is not None:
        return viol("reference:" + v[0], v[1] + "\n" + text, feat=feats, sample=text)
    if _red["n"]:
        COUNTERS["histories_with_redirect"] += 1
    return ok(nontrivial=_red["n"] > 0, feat=feats, sample=text, n=4)


def floors(agg):
    c = agg["counters"]
    return ["monitor %s is zero" % k for k in ("redirect_events", "histories_with_redirect", "reach:clausedb:ClauseDB.extend") if not c.get(k)]
