"""C23 k-best anytime bounds are sound and tight on completion."""
import re

from ..core import ok, viol, skip, COUNTERS, short_exc
from ..gen import prog as G
from ..ref import worlds
from .. import sut, judge, instrument, sanitize

ID = "C23"
LEVEL = "exploration"
RULE = ("case = generated evidence-free program (probabilistic facts incl. duplicates, ADs with and without bodies whose heads are "
        "also used conjunctively, probabilistic rules, stratified negation, positive recursion) evaluated by the k-best evaluator "
        "(default / lower_only / convergence threshold raised so that intervals are returned early) and by the explain task's own "
        "code path (KBestFormula.create_from(db, label_all=True).evaluate(explain=...)); a hook on Border.update records both bounds "
        "after EVERY MaxSAT solution: lower <= P_ref <= upper (1e-9) must hold at every step, bounds must move monotonically, a single "
        "returned value must equal P_ref, a returned interval must contain it; the '% P=' values of the proofs listed per query must "
        "sum to P_ref (1e-6, 8 printed digits); non-trivial = >= 2 relevant choices; distinct by program text + mode")
ASSUMPTIONS = ["the bundled maxsatz binary is the solver (the only one available offline)", "tolerance 1e-9 on bounds, 1e-6 on printed proof sums"]
LEVEL_TEXT = ("Every bound the real k-best evaluator passes through, not only the final one, is compared with exact possible-world "
              "enumeration; explanations are parsed and summed per query.")
LEVEL_NOTE = ("Trusts pbmon/ref/worlds.py. Auxiliary: every maxsatz call runs an ASan+UBSan build of the bundled solver source; any "
              "sanitizer report is a violation (none on the unchanged tree).")
TECHNIQUE = "runtime monitor on Border.update (anytime bounds) + reference-model oracle + explanation parser + ASan/UBSan maxsatz"
BUDGET = {"quick": 400, "thorough": 1700}
TIME_BUDGET = {"quick": 220, "thorough": 3300}
CASE_TIMEOUT = 60
WATCHDOG_FRACTION = 0.05
MAX_UPDATES = 400

_ST = {"trace": [], "cur": None, "n": 0, "spans": []}


class UpdateBudget(BaseException):
    pass


def prepare(scratch, env, tier):
    sanitize.prepare(scratch, env)


def collect(scratch, recs, counters):
    sanitize.collect(scratch, recs, counters)


def setup_worker(tier):
    sanitize.worker_probe(COUNTERS)
    from problog import kbest
    instrument.reach_install({"kbest.py": ["Border.update", "KBestEvaluator.evaluate"], "maxsat.py": ["MaxSATSolver.evaluate"],
                              "cnf_formula.py": ["CNF.from_partial"]})
    orig_update = kbest.Border.update
    orig_eval = kbest.KBestEvaluator.evaluate

    def update(self):
        _ST["n"] += 1
        if _ST["n"] > MAX_UPDATES:
            raise UpdateBudget()
        before = self.value
        sol = orig_update(self)
        _ST["trace"].append((_ST["cur"], self.name, before, self.value, None if sol is None else len(sol)))
        return sol

    def evaluate(self, index):
        names = [str(n) for n, i, l in self.formula.labeled() if i == index and l == self.formula.LABEL_QUERY]
        _ST["cur"] = tuple(names)
        nlabels = len({str(n) for n, i, l in self.formula.labeled() if i == index})
        ex = getattr(self, "_explain", None)
        start = len(ex) if ex is not None else 0
        r = orig_eval(self, index)
        if ex is not None:
            _ST["spans"].append((tuple(names), list(ex[start:]), nlabels))
        return r
    kbest.Border.update = update
    kbest.KBestEvaluator.evaluate = evaluate


def gen_case(rng, i, tier):
    L = G.L
    if i % 4 == 3:
        # annotated disjunctions whose heads are used together, alone and negated
        nh = rng.choice([2, 2, 3])
        ps = rng.choice(G.AD_PAL if nh == 2 else G.AD3_PAL)
        heads = [[ps[k], L("h%d" % k)] for k in range(nh)]
        cl = [["ad", heads, [] if rng.random() < 0.6 else [L("s")]], ["fact", rng.choice(G.PAL), L("s")],
              ["fact", rng.choice(G.PAL), L("c")], ["fact", rng.choice(G.PAL), L("e")]]
        atoms = ["h%d" % k for k in range(nh)] + ["c", "e"]
        qs = []
        for j in range(rng.randint(1, 3)):
            q = "q%d" % j
            for _ in range(rng.randint(1, 3)):
                body = [L(a, [], rng.random() < 0.2) for a in rng.sample(atoms, rng.randint(1, 3))]
                cl.append(["rule", rng.choice([None, None, rng.choice(G.PAL)]), L(q), body])
            qs.append(L(q))
            atoms.append(q)
        rng.shuffle(cl)
        p = dict(consts=[1], clauses=cl, queries=qs, evidence=[])
    else:
        p = G.gen(rng, stratified=True, n_evidence=0, mode=rng.choice(["mixed", "mixed", "prop", "graph"]))
        p["evidence"] = []
    mode = rng.choice(["default", "explain", "explain", "lower_only", "loose"])
    return dict(prog=p, mode=mode)


PROOF_RE = re.compile(r"^(.*?) :- (.*)\.\s+% P=(\S+)$")


def run_case(case):
    from problog.program import PrologString
    from problog.kbest import KBestFormula
    from problog.engine import DefaultEngine
    prog = case["prog"]
    mode = case["mode"]
    Fe = G.features(prog)
    R = worlds.reference(prog, max_worlds=1 << 12, cyc_preds=G.cyclic_preds(prog))
    if R.status == "too_big":
        return skip("reference too big")
    if R.query_undefined or R.any_undefined:
        return skip("not two-valued")
    Fe = G.refine_with_reference(Fe, R)
    cls = judge.input_class(Fe)
    feats = G.feat_list(Fe) + [mode]
    text = G.to_text(prog)
    _ST["trace"][:] = []
    _ST["spans"][:] = []
    _ST["n"] = 0
    explanation = None
    try:
        if mode == "explain":
            db = DefaultEngine().prepare(PrologString(text))
            cnf = KBestFormula.create_from(db, label_all=True)
            explanation = []
            res = cnf.evaluate(explain=explanation)
        else:
            cnf = KBestFormula.create_from(PrologString(text))
            kw = {}
            if mode == "lower_only":
                kw["lower_only"] = True
            elif mode == "loose":
                kw["convergence"] = 0.3
            res = cnf.evaluate(**kw)
    except UpdateBudget:
        COUNTERS["skip:update-budget"] += 1
        return skip("more than %d MaxSAT calls" % MAX_UPDATES)
    except Exception as e:  # noqa
        import subprocess
        if isinstance(e, subprocess.CalledProcessError) and e.returncode is not None and e.returncode > 0:
            # ordinary non-zero exit of the external solver (maxsatz: 'Out of memory' on a large WCNF): capacity, no verdict
            COUNTERS["solver_gave_up"] += 1
            return skip("external solver exit status %d (capacity)" % e.returncode)
        o = sut.outcome_of_exception(e)
        sig = "kbest-raised:%s|%s" % (o.get("sig", o["kind"]), cls)
        return viol(sig, "%s\n--- mode=%s\n%s" % (short_exc(e), mode, text), feat=feats, sample=text)
    viols = []

    def add(sig, detail):
        if not any(s == sig for s, _ in viols):
            viols.append([sig, detail + "\n--- mode=%s\n%s" % (mode, text)])
    got = {str(k).replace(" ", ""): v for k, v in res.items()}
    ref = {k: float(v) for k, v in R.probs.items()}
    for q in ref:
        if q not in got and ref[q] > 0:
            add("missing-query|" + cls, "query %s (P=%g) is missing from the result %r" % (q, ref[q], got))
    for q, v in got.items():
        if q not in ref:
            if isinstance(v, tuple) or v != 0.0:
                add("unknown-query|" + cls, "result lists %s=%r which is not a query instance" % (q, v))
            continue
        p = ref[q]
        if isinstance(v, tuple):
            COUNTERS["result:interval"] += 1
            lo, hi = v
            if not (lo - 1e-9 <= p <= hi + 1e-9):
                add("interval-excludes-exact|" + cls, "query %s: returned interval (%r, %r) does not contain the exact probability %r" % (q, lo, hi, p))
            if mode == "default" and hi - lo > 1e-8:
                add("interval-wider-than-convergence|" + cls, "query %s: returned interval (%r, %r) although convergence=1e-9" % (q, lo, hi))
        else:
            COUNTERS["result:value"] += 1
            if abs(float(v) - p) > 1e-9:
                add("value-differs|" + cls, "query %s: k-best returned %r, exact probability %r" % (q, v, p))
    # anytime bounds: after every MaxSAT solution
    last = {}
    for names, border, before, after, nsol in _ST["trace"]:
        COUNTERS["updates:%s" % border] += 1
        if after < before - 1e-12:
            add("bound-not-monotone|" + cls, "%s border of %r went from %r to %r" % (border, names, before, after))
        for q in names or ():
            q = q.replace(" ", "")
            if q not in ref:
                continue
            p = ref[q]
            if border == "lower" and after > p + 1e-9:
                add("lower-bound-above-exact|" + cls, "query %s: lower bound %r after an update exceeds the exact probability %r" % (q, after, p))
            if border == "upper" and 1.0 - after < p - 1e-9:
                add("upper-bound-below-exact|" + cls, "query %s: upper bound %r after an update is below the exact probability %r" % (q, 1.0 - after, p))
            last[(q, border)] = after
    if explanation is not None:
        # the lines each evaluate(index) call appended belong to every query that is attached to that node
        sums, seen, heads = {}, set(), {}
        shared_q = set()
        for names, lines, nlabels in _ST["spans"]:
            names = [n.replace(" ", "") for n in names]
            if nlabels > 1:
                shared_q.update(names)
            tot, any_line = 0.0, False
            for line in lines:
                m = PROOF_RE.match(line)
                if m:
                    tot += float(m.group(3))
                    COUNTERS["proof_lines"] += 1
                    any_line = True
                    h = m.group(1).replace(" ", "")
                elif line.endswith(":- true."):
                    tot, any_line = 1.0, True
                    h = line[:-len(" :- true.")].replace(" ", "")
                elif line.endswith(":- fail."):
                    any_line = True
                    h = line[:-len(" :- fail.")].replace(" ", "")
                else:
                    continue
                for q in names:
                    heads.setdefault(q, set()).add(h)
            for q in names:
                if any_line:
                    seen.add(q)
                    sums[q] = tot
        for q, p in ref.items():
            if q not in seen:
                if p > 0:
                    add("explain:no-proof-listed|" + cls, "query %s (P=%g) has no proof line" % (q, p))
                continue
            if abs(sums[q] - p) > 1e-6:
                add("explain:proofs-do-not-sum-to-exact|" + cls, "query %s: proofs sum to %.8g, exact probability %.8g\n%s" % (
                    q, sums[q], p, "\n".join(explanation)))
            wrong = sorted(h for h in heads.get(q, ()) if h != q)
            if wrong:
                shared = q in shared_q
                add("explain:proof-listed-under-other-name" + ("|shared-node" if shared else "|" + cls),
                    "the proofs of query %s are listed with head %s\n%s" % (q, wrong, "\n".join(explanation)))
            COUNTERS["explain_sums_checked"] += 1
    COUNTERS["mode:%s" % mode] += 1
    if viols and cls != "clean":
        # is the k-best machinery wrong, or the ground program it was given?  The default exact evaluator shares the grounding only:
        # if it returns the same wrong numbers the defect is the engine's (recorded engine findings, keyed by input class)
        try:
            from problog import get_evaluatable
            dres = {str(k).replace(" ", ""): v for k, v in get_evaluatable().create_from(PrologString(text)).evaluate().items()}
            engine_wrong = sorted(q for q, pq in ref.items() if q in dres and abs(float(dres[q]) - pq) > 1e-9)
        except Exception:  # noqa
            engine_wrong = []
        if engine_wrong:
            COUNTERS["engine_ground_program_wrong"] += 1
            keep = [v for v in viols if not any(("query %s:" % q) in v[1] or ("query %s " % q) in v[1] for q in engine_wrong)]
            moved = len(viols) - len(keep)
            if moved:
                keep.append(["engine-ground-program-wrong|" + cls, "the default exact evaluator returns the same wrong value as k-best for %s "
                             "(reference %s, default evaluator %s): the ground program is wrong, not the k-best evaluation\n--- mode=%s\n%s" % (
                                 engine_wrong, [ref[q] for q in engine_wrong], [dres[q] for q in engine_wrong], mode, text)])
            viols = keep
    if viols:
        return viol(viols[0][0], viols[0][1], feat=feats, sample=text, extra_viols=viols[1:])
    return ok(nontrivial=R.nchoices >= 2, key=text + mode, feat=feats, sample=text)


def floors(agg):
    c = agg["counters"]
    out = []
    for k, m in (("updates:lower", 100), ("updates:upper", 50), ("result:interval", 5), ("result:value", 50), ("explain_sums_checked", 20),
                 ("proof_lines", 50), ("reach:kbest:Border.update", 1), ("reach:maxsat:MaxSATSolver.evaluate", 1)):
        if c.get(k, 0) < m:
            out.append("%s = %d < %d" % (k, c.get(k, 0), m))
    return out
