"""C30 Invalid probability annotations are rejected."""
from fractions import Fraction as F

from ..core import ok, viol, skip, COUNTERS
from ..gen import prog as G
from ..ref import worlds
from .. import sut, judge, instrument

ID = "C30"
LEVEL = "exploration"
RULE = ("case = small program in which the probabilities of relevant (queried) facts, probabilistic rules and AD heads are drawn from "
        "inside (0.3, 1e-12, 1-1e-12), on (0, 1) and outside (-0.5, -1e-3, 1.001, 1.5, 2) the valid range, written as literals or as "
        "arithmetic expressions, with AD sums at 1-1e-3, 1, 1+1e-3, 1.3, 1.8 (2 or 3 heads, facts and rules with bodies shared across "
        "groundings), evaluated with the probability and the log-probability semiring; out-of-range or AD sum > 1+1e-6 must raise "
        "InvalidValue, otherwise the numbers must equal the possible-world reference; non-trivial = program with an invalid "
        "annotation or an AD sum within 1e-2 of 1; distinct by program text")
ASSUMPTIONS = ["the invalid annotation is always on a clause the query depends on (goal-directed grounding never sees irrelevant clauses)",
               "sums within 1e-6 of 1 are not asserted either way"]
LEVEL_TEXT = ("Hundreds of boundary-value programs per run; the accept/reject decision and, when accepted, every number are judged against "
              "exact enumeration, for both built-in numeric semirings.")
LEVEL_NOTE = "Trusts pbmon/ref/worlds.py."
TECHNIQUE = "runtime boundary-value monitor with reference-model oracle"
BUDGET = {"quick": 1200, "thorough": 20000}
TIME_BUDGET = {"quick": 200, "thorough": 3000}
CASE_TIMEOUT = 20

VALID = ["0.3", "0.5", "0.000000000001", "0.999999999999", "0.0", "1.0", "0.25"]
INVALID = ["-0.5", "-0.001", "1.001", "1.5", "2", "1.000001"]
EXPR = {"0.3": "0.1+0.2", "0.5": "1/2", "1.5": "0.75*2", "2": "1+1", "-0.5": "0.25-0.75", "0.25": "0.5*0.5", "1.0": "0.5+0.5"}
AD_SUMS = [("0.3", "0.4"), ("0.5", "0.499"), ("0.5", "0.5"), ("0.5", "0.501"), ("0.7", "0.6"), ("0.9", "0.9"), ("0.2", "0.3", "0.5"),
           ("0.2", "0.3", "0.501"), ("0.5", "0.5", "0.3"), ("0.5", "0.25", "0.25"), ("0.6", "0.6", "0.6")]


def setup_worker(tier):
    instrument.reach_install({"constraint.py": ["ConstraintAD.update_weights"], "evaluator.py": ["SemiringProbability.value",
                              "SemiringLogProbability.value", "SemiringProbability.in_domain", "SemiringLogProbability.in_domain"]})


def gen_case(rng, i, tier):
    L = G.L
    cl = []
    q = []
    exprs = {}
    kind = rng.choice(["fact", "fact", "rule", "ad_fact", "ad_fact", "ad_rule", "ad_rule", "ad_partial"])

    def pick():
        p = rng.choice(VALID + VALID + INVALID)
        return p
    other = rng.choice(["0.3", "0.6"])
    cl.append(["fact", other, L("b")])
    cl.append(["fact", "0.5", L("c", [1])])
    cl.append(["fact", "0.5", L("c", [2])])
    if kind == "fact":
        cl.append(["fact", pick(), L("a")])
        cl.append(["rule", None, L("q"), [L("a"), L("b")]] if rng.random() < 0.5 else ["rule", None, L("q"), [L("a")]])
        if rng.random() < 0.5:
            cl.append(["rule", None, L("q"), [L("b", [], True)]])
        q = [L("q")] + ([L("a")] if rng.random() < 0.5 else [])
    elif kind == "rule":
        cl.append(["rule", pick(), L("a", ["X"]), [L("c", ["X"])]])
        q = [L("a", [rng.choice([1, 2, "_"])])]
    else:
        ps = rng.choice(AD_SUMS)
        if rng.random() < 0.25:
            ps = tuple(pick() if j == 0 else p for j, p in enumerate(ps))
        if kind == "ad_fact":
            heads = [[p, L("h", [j + 1])] for j, p in enumerate(ps)]
            cl.append(["ad", heads, []])
            q = [L("h", [rng.choice([1, 2, "_"])])]
        elif kind == "ad_rule":
            heads = [[p, L("h", ["X", j + 1])] for j, p in enumerate(ps)]
            cl.append(["ad", heads, [L("c", ["X"])]])
            q = [L("h", [rng.choice([1, 2, "_"]), rng.choice([1, "_"])])]
        else:
            # only ONE head of the group is ever grounded by the query
            heads = [[p, L("h%d" % (j + 1))] for j, p in enumerate(ps)]
            cl.append(["ad", heads, []])
            q = [L("h1")]
        cl.append(["rule", None, L("w"), [L("h1")]] if kind == "ad_partial" else ["rule", None, L("w"), [L("b")]])
    ev = []
    if rng.random() < 0.25:
        ev = [[L("b"), rng.random() < 0.5]]
    use_expr = rng.random() < 0.3
    return dict(prog=dict(consts=[1, 2], clauses=cl, queries=q, evidence=ev), kind=kind, expr=use_expr, semiring=rng.choice(["prob", "log", "default"]))


def text_of(prog, use_expr):
    t = G.to_text(prog)
    if use_expr:
        import re
        t = re.sub(r"(?<![\d.+*/-])(-?\d+(?:\.\d+)?)::", lambda m: "%s::" % EXPR.get(m.group(1), m.group(1)), t)
    return t


def _matched(head, queries):
    return any(q[0] == head[0] and len(q[1]) == len(head[1]) and all(G.isvar(x) or G.isvar(y) or x == y for x, y in zip(q[1], head[1]))
               for q in queries)


def classify(prog):
    """-> ('invalid', why, tag) | ('valid',) | ('edge', why).  Only annotations on heads that the queries ground are judged."""
    qs = list(prog["queries"])
    # w :- h1 makes h1 relevant as well
    for c in prog["clauses"]:
        if c[0] == "rule" and c[1] is None and any(c[2][0] == q[0] for q in qs):
            qs += [l for l in c[3]]
    for c in prog["clauses"]:
        if c[0] in ("fact", "rule") and c[1] is not None:
            heads = [(c[1], c[2])]
        elif c[0] == "ad":
            heads = [(p, h) for p, h in c[1]]
        else:
            continue
        grounded = [(p, h) for p, h in heads if _matched(h, qs)]
        for p, h in heads:
            v = F(p)
            bad = v < -F(1, 10 ** 6) or v > 1 + F(1, 10 ** 6)
            if bad and (p, h) in grounded:
                return ("invalid", "probability %s out of range" % p, "")
            if bad or v < 0 or v > 1:
                return ("edge", "out-of-range probability on a head the query does not ground / within 1e-6 of the range")
        if c[0] == "ad":
            s = sum(F(p) for p, _ in heads)
            if s > 1 + F(1, 10 ** 6):
                if not grounded:
                    return ("edge", "AD not grounded")
                return ("invalid", "AD sum %s > 1" % float(s), "|single-grounded-head" if len(grounded) < 2 else "")
            if s > 1:
                return ("edge", "AD sum within 1e-6 above 1")
    return ("valid",)


def run_case(case):
    from problog.evaluator import SemiringProbability, SemiringLogProbability
    prog = case["prog"]
    text = text_of(prog, case["expr"])
    klass = classify(prog)
    ekw = {}
    if case["semiring"] == "prob":
        ekw["semiring"] = SemiringProbability()
    elif case["semiring"] == "log":
        ekw["semiring"] = SemiringLogProbability()
    o = sut.evaluate_text(text, evaluate_kw=ekw)
    COUNTERS["class_%s" % klass[0]] += 1
    COUNTERS["sut_%s" % (o.get("exc") or o["kind"])] += 1
    nt = klass[0] != "valid" or any(c[0] == "ad" and abs(sum(F(p) for p, _ in c[1]) - 1) < F(1, 100) for c in prog["clauses"])
    feats = [case["kind"], klass[0], case["semiring"]]
    if klass[0] == "edge":
        return ok(nontrivial=False, feat=feats, sample=text)
    if klass[0] == "invalid":
        if o["kind"] == "ok":
            return viol("invalid-accepted:%s%s" % ("ad-sum" if "AD sum" in klass[1] else "range", klass[2]),
                        "%s but inference answered %s\n%s" % (klass[1], sut.describe(o), text), nontrivial=nt, feat=feats, sample=text)
        if o.get("exc") != "InvalidValue":
            return viol("invalid-other-error:%s" % o["sig"], "%s: expected InvalidValue, got %s\n%s" % (klass[1], sut.describe(o), text),
                        nontrivial=nt, feat=feats, sample=text)
        return ok(nontrivial=nt, feat=feats, sample=text)
    # valid: numbers must be right
    progf = dict(prog)
    R = worlds.reference(progf, max_worlds=1 << 12)
    Fe = G.features(prog)
    v = judge.judge(o, R, Fe)
    if v is not None:
        return viol("valid:" + v[0], v[1] + "\n" + text, nontrivial=nt, feat=feats, sample=text)
    return ok(nontrivial=nt, feat=feats, sample=text)


def floors(agg):
    c = agg["counters"]
    return ["monitor %s is zero" % k for k in ("class_invalid", "class_valid", "sut_InvalidValue", "reach:constraint:ConstraintAD.update_weights")
            if not c.get(k)]
