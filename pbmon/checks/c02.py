"""C02 Programs with a cycle through negation are rejected, never answered."""
from ..core import ok, viol, skip, COUNTERS
from ..gen import prog as G
from ..ref import worlds
from .. import sut, judge, instrument

ID = "C02"
LEVEL = "exploration"
RULE = ("case = generated program with unrestricted negation (negated literals on any predicate, loops through ADs, evidence, "
        "recursion) classified by the reference: must-reject (a query/evidence atom is undefined in the well-founded model of a "
        "positive-probability world), must-answer (the full ground dependency graph has no cycle through negation) or either; "
        "non-trivial = program whose predicate dependency graph has a negative edge on or next to a cycle; distinct by program text")
ASSUMPTIONS = ["weakest reading that still forbids unsound numbers: rejection is only demanded when a queried/evidence atom itself is "
               "undefined in some world; whenever ProbLog answers, every number must equal the reference (query atoms two-valued)",
               "must-answer uses the full ground instantiation over the constant domain (every clause variable, all instances)"]
LEVEL_TEXT = ("Thousands of programs with negative loops of many shapes are classified by an alternating-fixpoint well-founded model "
              "per possible world; the real engine's accept/reject decision, the raising call site and every returned number are judged.")
LEVEL_NOTE = "Trusts pbmon/ref/worlds.py (well-founded model + ground dependency graph). Spurious NegativeCycle on a listed input class is a known finding."
TECHNIQUE = "runtime reference-model monitor (well-founded-model classifier + possible-world enumerator) with raise-site counters"
BUDGET = {"quick": 2500, "thorough": 50000}
TIME_BUDGET = {"quick": 200, "thorough": 3000}
CASE_TIMEOUT = 12
WATCHDOG_FRACTION = 0.04


def setup_worker(tier):
    instrument.reach_install({"eval_nodes.py": ["EvalNot.createCycle", "EvalDefine.cycleDetected"],
                              "engine_stack.py": ["StackBasedEngine.checkCycle", "StackBasedEngine.notify_cycle"]})


def template(rng):
    """hand-shaped negative loops: through an AD, through evidence, through an already-tabled ground goal, inside a positive cycle"""
    L = G.L
    if rng.random() < 0.5:
        return composite(rng)
    k = rng.randrange(7)
    cl = [["fact", rng.choice(G.PAL), L("f0")], ["fact", rng.choice(G.PAL), L("f1")], ["fact", rng.choice(G.PAL), L("f2", [1])],
          ["fact", rng.choice(G.PAL), L("f2", [2])]]
    q = [L("d0")]
    ev = []
    if k == 0:      # plain loop guarded by a probabilistic fact
        cl += [["rule", None, L("d0"), [L("f0"), L("d1", [], True)]], ["rule", None, L("d1"), [L("f1"), L("d0", [], True)]]]
    elif k == 1:    # loop through an AD head
        cl += [["ad", [["0.4", L("d0")], ["0.3", L("a0")]], [L("d1", [], True)]], ["rule", None, L("d1"), [L("a0")]],
               ["rule", None, L("d1"), [L("f0")]]]
        q.append(L("a0"))
    elif k == 2:    # negative loop only reachable below a positive cycle
        cl += [["rule", None, L("d0"), [L("d1", [], True)]], ["rule", None, L("d0"), [L("f0")]], ["rule", None, L("d1"), [L("d2")]],
               ["rule", None, L("d2"), [L("d3")]], ["rule", None, L("d3"), [L("d2")]], ["rule", None, L("d3"), [L("d0")]]]
        rng.shuffle(cl)
    elif k == 3:    # loop cut by evidence / guarded by evidence atom
        cl += [["rule", None, L("d0"), [L("f0"), L("d1", [], True)]], ["rule", None, L("d1"), [L("d0", [], True), L("f1")]]]
        ev = [[L(rng.choice(["f0", "f1"])), rng.random() < 0.5]]
    elif k == 4:    # non-ground loop over a domain, through an already tabled ground goal
        cl += [["rule", None, L("d0", ["X"]), [L("f2", ["X"]), L("d1", ["X"], True)]],
               ["rule", None, L("d1", ["X"]), [L("f2", ["X"]), L("d0", ["Y"], True), L("f2", ["Y"])]]]
        q = [L("d0", [1]), L("d1", [rng.choice([1, 2, "_"])])]
    elif k == 5:    # stratified but looks cyclic at predicate level: p(1) :- \+p(2).
        cl += [["rule", None, L("d0", [1]), [L("d0", [2], True), L("f0")]], ["rule", None, L("d0", [2]), [L("f1")]]]
        q = [L("d0", [rng.choice([1, 2, "_"])])]
    else:           # even loop (two-valued? no: still undefined in WFM) through double negation
        cl += [["rule", None, L("d0"), [L("d1", [], True), L("f0")]], ["rule", None, L("d1"), [L("d2", [], True)]],
               ["rule", None, L("d2"), [L("d0", [], True), L("f1")]]]
        q.append(L("d2"))
    for c in (1, 2):
        cl.append(["rule", None, L("dom", [c]), []])
    return dict(consts=[1, 2], clauses=cl, queries=q, evidence=ev)


def composite(rng):
    """a positive loop p0..pm and a loop g0..gn with at least one negative edge, connected in every direction (the negative loop below,
    beside or above the positive one, or entangled with it), with supporting clauses before/after the looping ones and random clause order"""
    L = G.L
    cl = [["fact", rng.choice(G.PAL), L("f%d" % k)] for k in range(3)]
    rules = []
    m = rng.randint(1, 3)
    n = rng.randint(1, 3)
    P = ["p%d" % k for k in range(m)]
    Q = ["g%d" % k for k in range(n)]

    def extra():
        return [L("f%d" % rng.randrange(3), [], rng.random() < 0.2)] if rng.random() < 0.4 else []
    for k in range(m):
        rules.append(["rule", None, L(P[k]), [L(P[(k + 1) % m])] + extra()])
    negs = [rng.random() < 0.6 for _ in range(n)]
    if not any(negs):
        negs[rng.randrange(n)] = True
    for k in range(n):
        rules.append(["rule", None, L(Q[k]), [L(Q[(k + 1) % n], [], negs[k])] + extra()])
    # supporting (exit) clauses
    for a in P + Q:
        if rng.random() < 0.6:
            rules.append(["rule", rng.choice([None, None, rng.choice(G.PAL)]), L(a), [L("f%d" % rng.randrange(3))]])
    # connections
    how = rng.randrange(4)
    if how in (0, 2):     # negative loop below the positive one
        rules.append(["rule", None, L(rng.choice(P)), [L(rng.choice(Q))] + extra()])
    if how in (1, 2):     # positive loop below the negative one
        rules.append(["rule", None, L(rng.choice(Q)), [L(rng.choice(P), [], rng.random() < 0.3)] + extra()])
    if how == 3:          # both reached from a common top
        rules.append(["rule", None, L("top"), [L(rng.choice(P)), L(rng.choice(Q), [], rng.random() < 0.3)]])
    if rng.random() < 0.7:
        rng.shuffle(rules)
    q = [L("top")] if how == 3 else [L(rng.choice(P + Q))]
    if rng.random() < 0.4:
        q.append(L(rng.choice(P + Q)))
    cl += rules
    for c in (1, 2):
        cl.append(["rule", None, L("dom", [c]), []])
    return dict(consts=[1, 2], clauses=cl, queries=q, evidence=[])


def gen_case(rng, i, tier):
    if i % 4 == 0:
        return dict(prog=template(rng), src="template", tier=tier)
    return dict(prog=G.gen(rng, stratified=False), src="random", tier=tier)


def run_case(case):
    prog = case["prog"]
    F = G.features(prog)
    R = worlds.reference(prog, max_worlds=1 << (10 if case.get("tier") != "thorough" else 13), cyc_preds=G.cyclic_preds(prog))
    if R.status == "too_big":
        return skip("reference too big")
    F = G.refine_with_reference(F, R)
    cls = judge.input_class(F)
    klass = "must-reject" if R.query_undefined else ("must-answer" if not R.ground_negcycle else "either")
    text = G.to_text(prog)
    o = sut.evaluate_text(text, backend=None)
    COUNTERS["class_" + klass] += 1
    COUNTERS["sut_%s_%s" % (klass, o["kind"])] += 1
    if o["kind"] == "negcycle":
        COUNTERS["raise_site:" + o["sig"]] += 1
    feats = [klass, case["src"], "sut_" + o["kind"]] + G.feat_list(F)
    nt = F["pred_neg_cycle"] or F["neg_cyclic_in_cycle"]
    v = None
    if klass == "must-reject":
        if o["kind"] == "ok":
            v = ("must-reject-answered|%s" % cls, "a queried/evidence atom is undefined in the well-founded model of a possible world, "
                 "but problog answered %s" % sut.describe(o))
        elif o["kind"] == "inconsistent" and R.status == "inconsistent":
            v = None   # evidence impossible anyway: no number is produced
        elif not o.get("grounding") and o["kind"] != "inconsistent":
            v = ("%s|%s" % (o["sig"], cls), "must-reject program: expected a GroundingError, got %s" % sut.describe(o))
    elif klass == "must-answer":
        if o["kind"] == "negcycle":
            v = ("NegativeCycle-on-stratified|%s" % cls, "the full ground dependency graph has no cycle through negation but problog "
                 "raised %s" % sut.describe(o))
        else:
            v = judge.judge(o, R, F)
    else:
        if o["kind"] in ("ok", "inconsistent"):
            v = judge.judge(o, R, F)
        elif o["kind"] == "negcycle" or o.get("grounding"):
            v = None
        else:
            v = ("%s|%s" % (o["sig"], cls), "problog raised %s" % sut.describe(o))
    if v is not None:
        return viol(v[0], v[1] + "\n" + text, nontrivial=nt, feat=feats, sample=text)
    return ok(nontrivial=nt, feat=feats, sample=text)


def floors(agg):
    c = agg["counters"]
    out = []
    if c.get("class_must-reject", 0) < 50:
        out.append("fewer than 50 must-reject programs")
    if c.get("class_must-answer", 0) < 50:
        out.append("fewer than 50 must-answer programs")
    if not any(k.startswith("raise_site:") for k in c):
        out.append("no NegativeCycle raise observed")
    return out
