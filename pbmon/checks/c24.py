"""C24 Learning from interpretations is a monotone EM producing valid parameters."""
import math
import random
from fractions import Fraction as F

from ..core import ok, viol, skip, COUNTERS, short_exc
from ..gen import prog as G
from ..ref import worlds
from .. import sut, instrument

ID = "C24"
LEVEL = "exploration"
RULE = ("case = generated propositional learning problem: tunable facts t(_)::f / t(p0)::f, fixed probabilistic facts, an optional "
        "annotated disjunction (tunable, with or without body), tunable and deterministic rules with negation, and 5-40 interpretations "
        "sampled from a hidden parameter vector by the reference enumerator (complete or partial observations); LFIProblem.prepare() + "
        "K x step() on the real code; after every step the harness reads the weights through get_weights() and recomputes the data "
        "log-likelihood with the independent possible-world reference: (1) the reported log-likelihood of step k equals the reference "
        "log-likelihood of the weights the step started from (1e-6 rel.), (2) the reference log-likelihood never decreases (1e-9 rel.), "
        "(3) every weight is in [0,1] and AD weights sum to <= 1 (1e-9), (4) with every tunable fact observed in every example one "
        "step returns count(true)/N; non-trivial = >= 2 tunable parameters and >= 5 examples; distinct by program text + data")
ASSUMPTIONS = ["an iteration in which the real code drops an example as inconsistent ends the monotonicity comparison for that run (counted)",
               "relative-frequency estimate is asserted for tunable facts and body-less tunable ADs only (the property's 'tunable fact')"]
LEVEL_TEXT = ("The real EM loop is stepped under observation and its reported score and parameters are re-derived after every iteration by "
              "an independent exact likelihood computation.")
LEVEL_NOTE = "Propositional programs only; trusts pbmon/ref/worlds.py for P(interpretation | parameters)."
TECHNIQUE = "runtime monitor on LFIProblem.step (per-iteration score and weights) + reference-model likelihood oracle"
BUDGET = {"quick": 400, "thorough": 5000}
TIME_BUDGET = {"quick": 240, "thorough": 3300}
CASE_TIMEOUT = 120
WATCHDOG_FRACTION = 0.05

_ST = {"dropped": 0}


def setup_worker(tier):
    from problog.learning import lfi
    instrument.reach_install({"lfi.py": ["LFIProblem.step", "LFIProblem._update", "LFIProblem._normalize_weights", "ExampleEvaluator.__call__"]})
    # examples dropped as inconsistent are reported through the logger only: count the warnings
    import logging

    class H(logging.Handler):
        def emit(self, record):
            if "Ignoring example" in record.getMessage():
                _ST["dropped"] += 1
    lg = logging.getLogger("problog_lfi")
    lg.addHandler(H())
    lg.setLevel(logging.WARNING)
    lg.propagate = False


def gen_case(rng, i, tier):
    L = G.L
    cl = []
    tun = []      # (clause index, head index or None)
    atoms = []
    nf = rng.randint(1, 4)
    for k in range(nf):
        name = "f%d" % k
        r = rng.random()
        if r < 0.65:
            p = "t(_)" if rng.random() < 0.6 else "t(%s)" % rng.choice(G.PAL)
            tun.append((len(cl), None))
        else:
            p = rng.choice(G.PAL)
        cl.append(["fact", p, L(name)])
        atoms.append(name)
    kind = i % 4   # 0: facts only (complete data), 1: facts + rules, 2: AD without body, 3: AD with body / tunable rules
    has_ad = kind >= 2 and rng.random() < 0.8
    if has_ad:
        nh = rng.choice([2, 2, 3])
        heads = []
        for k in range(nh):
            heads.append(["t(_)", L("x%d" % k)])
            tun.append((len(cl), k))
        body = [] if kind == 2 else [L(rng.choice(atoms))]
        cl.append(["ad", heads, body])
        atoms += ["x%d" % k for k in range(nh)]
    derived = []
    if kind != 0:
        for j in range(rng.randint(1, 3)):
            h = "d%d" % j
            for _ in range(rng.randint(1, 2)):
                pool = atoms + derived
                body = [L(a, [], rng.random() < 0.25) for a in rng.sample(pool, min(len(pool), rng.randint(1, 2)))]
                if all(l[2] for l in body):
                    body[0] = L(body[0][0])
                pr = None
                if kind == 3 and rng.random() < 0.35:
                    pr = "t(_)"
                    tun.append((len(cl), None))
                cl.append(["rule", pr, L(h), body])
            derived.append(h)
    if not tun:
        cl[0][1] = "t(_)"
        tun.append((0, None))
        tun.sort()
    tun.sort(key=lambda t: (t[0], -1 if t[1] is None else t[1]))
    # hidden parameters
    hidden = {}
    for ci, hi in tun:
        hidden[(ci, hi)] = rng.choice(G.PAL)
    for c in cl:
        if c[0] == "ad":
            tot = sum(F(hidden[(cl.index(c), k)]) for k in range(len(c[1])))
            if tot > 1:
                for k in range(len(c[1])):
                    hidden[(cl.index(c), k)] = str(float(F(hidden[(cl.index(c), k)]) / (tot + F(1, 10))))
    complete = kind in (0, 2) or rng.random() < 0.3
    n = rng.randint(5, 40)
    prog = dict(consts=[1], clauses=cl, queries=[], evidence=[])
    # sample the data from the hidden model
    truth = with_weights(prog, tun, [hidden[t] for t in tun])
    grules, groups, poss = worlds.prepare(truth)
    allatoms = atoms + derived
    data = []
    for _ in range(n):
        world = sample_world(rng, grules, groups)
        if complete:
            obs = list(allatoms)
        else:
            obs = rng.sample(allatoms, rng.randint(1, min(3, len(allatoms))))
        data.append([[a, (a, ()) in world] for a in obs])
    return dict(prog=prog, tun=[list(t) for t in tun], data=data, complete=complete, seed=rng.randrange(1 << 30),
                normalize=rng.random() < 0.3, steps=rng.choice([3, 5, 8]), has_ad=has_ad, kind=kind)


def with_weights(prog, tun, ws):
    cl = [list(c) for c in prog["clauses"]]
    for (ci, hi), w in zip(tun, ws):
        w = repr(float(w)) if not isinstance(w, str) else w
        if hi is None:
            cl[ci][1] = w
        else:
            cl[ci][1] = [list(h) for h in cl[ci][1]]
            cl[ci][1][hi][0] = w
    return dict(prog, clauses=cl)


def sample_world(rng, grules, groups):
    pick = {}
    for g, ps in groups.items():
        r = rng.random()
        acc = 0.0
        pick[g] = 0
        for o, p in enumerate(ps):
            acc += float(p)
            if r < acc:
                pick[g] = o
                break
    idx = {}
    rules = []
    for h, pos, neg, ch in grules:
        if ch is not None and pick[ch[0]] != ch[1]:
            continue
        for a in (h,) + pos + neg:
            idx.setdefault(a, len(idx))
        rules.append((idx[h], tuple(idx[a] for a in pos), tuple(idx[a] for a in neg)))
    true, undef = worlds.wfm(rules, len(idx), True)
    inv = {v: k for k, v in idx.items()}
    return {inv[i] for i in true}


def ref_ll(prog, tun, ws, data, cache):
    """sum over examples of log P(example | weights); None if some example has probability 0"""
    model = with_weights(prog, tun, ws)
    tot = 0.0
    for ex in data:
        key = tuple(sorted((a, v) for a, v in ex))
        if key not in cache:
            m = dict(model, evidence=[[G.L(a), v] for a, v in ex], queries=[])
            R = worlds.reference(m, max_worlds=1 << 14, full_negcycle=False)
            cache[key] = None if R.status == "too_big" else float(R.pe)
        p = cache[key]
        if p is None:
            return "too_big"
        if p <= 0:
            return None
        tot += math.log(p)
    return tot


def run_case(case):
    from problog.program import PrologString
    from problog.logic import Term
    from problog.learning.lfi import LFIProblem
    prog = case["prog"]
    tun = [tuple(t) for t in case["tun"]]
    data = case["data"]
    text = G.to_text(prog)
    examples = [[(Term(a), bool(v)) for a, v in ex] for ex in data]
    dtxt = "\n".join("  " + ", ".join("%s=%s" % (a, "T" if v else "F") for a, v in ex) for ex in data)
    feats = ["kind%d" % case["kind"], "complete" if case["complete"] else "partial", "ad" if case["has_ad"] else "noad",
             "normalize" if case["normalize"] else "nonorm"]
    tag = "|ad" if case["has_ad"] else "|noad"
    random.seed(case["seed"])
    _ST["dropped"] = 0
    viols = []

    def add(sig, detail):
        if not any(s == sig for s, _ in viols):
            viols.append([sig, detail + "\n--- normalize=%s seed=%s\n%s--- data (%d interpretations)\n%s" % (
                case["normalize"], case["seed"], text, len(data), dtxt)])

    def weights(lfi):
        out = []
        for k in range(lfi.count):
            ws = lfi.get_weights(k)
            if len(ws) != 1:
                return None
            out.append(float(ws[0][1]))
        return out
    try:
        lfi = LFIProblem(PrologString(text), examples, normalize=case["normalize"])
        lfi.prepare()
        names = [str(Term(n.functor, *n.args)) for n in lfi.names]
        mine = []
        for ci, hi in tun:
            c = prog["clauses"][ci]
            mine.append(c[2][0] if hi is None else c[1][hi][1][0])
        if names != mine:
            COUNTERS["skip:parameter-map"] += 1
            return skip("parameter order %r differs from the harness order %r" % (names, mine))
        w = weights(lfi)
        if w is None:
            return skip("non-scalar weight")
        history = [w]
        reported = []
        for k in range(case["steps"]):
            ll, _conv = lfi.step()
            reported.append(ll)
            w = weights(lfi)
            if w is None:
                return skip("non-scalar weight")
            history.append(w)
            COUNTERS["steps"] += 1
    except Exception as e:  # noqa
        o = sut.outcome_of_exception(e)
        return viol("lfi-raised:%s%s" % (o.get("sig", o["kind"]), tag), "%s\n--- seed=%s\n%s--- data\n%s" % (short_exc(e), case["seed"], text, dtxt),
                    feat=feats, sample=text)
    # (3) validity of every parameter after every step
    adgroups = {}
    for k, (ci, hi) in enumerate(tun):
        if hi is not None:
            adgroups.setdefault(ci, []).append(k)
    valid = True
    for it, ws in enumerate(history):
        for k, x in enumerate(ws):
            if not (-1e-9 <= x <= 1 + 1e-9) or x != x:
                add("weight-not-a-probability" + tag, "after step %d parameter %s = %r" % (it, mine[k], x))
                valid = False
        for ci, ks in adgroups.items():
            s = sum(ws[k] for k in ks)
            if s > 1 + 1e-9:
                add("ad-weights-sum-above-one" + tag + ("|normalize" if case["normalize"] else "|nonorm"),
                    "after step %d the learned weights of the annotated disjunction %s sum to %r" % (it, [mine[k] for k in ks], s))
                valid = False
        COUNTERS["weight_vectors_checked"] += 1
    # (1) + (2): likelihoods recomputed by the reference
    if valid:
        cache_by_w = []
        lls = []
        for ws in history:
            v = ref_ll(prog, tun, ws, data, {})
            lls.append(v)
        if any(v == "too_big" for v in lls):
            return skip("reference too big")
        dropped = _ST["dropped"] > 0
        if dropped:
            COUNTERS["runs_with_dropped_examples"] += 1
        for k, rep in enumerate(reported):
            exp = lls[k]
            if exp is None or dropped:
                continue
            COUNTERS["reported_ll_checked"] += 1
            if abs(rep - exp) > 1e-6 * max(1.0, abs(exp)):
                add("reported-loglikelihood-wrong" + tag, "step %d reports log-likelihood %r, the reference gives %r for the weights %r it started from" % (
                    k + 1, rep, exp, history[k]))
            if k > 0 and reported[k] < reported[k - 1] - 1e-9 * max(1.0, abs(reported[k - 1])):
                add("reported-loglikelihood-decreases" + tag, "reported log-likelihood goes %r -> %r at step %d; weights %r -> %r" % (
                    reported[k - 1], reported[k], k + 1, history[k - 1], history[k]))
        for k in range(1, len(lls)):
            if lls[k] is None or lls[k - 1] is None:
                if lls[k] is None and lls[k - 1] is not None:
                    add("loglikelihood-drops-to-minus-infinity" + tag, "after step %d some interpretation has probability 0 under the learned weights %r" % (
                        k, history[k]))
                continue
            COUNTERS["monotonicity_steps_checked"] += 1
            if lls[k] < lls[k - 1] - 1e-9 * max(1.0, abs(lls[k - 1])):
                add("loglikelihood-decreases" + tag, "reference log-likelihood goes %r -> %r at step %d; weights %r -> %r" % (
                    lls[k - 1], lls[k], k, history[k - 1], history[k]))
    # (4) relative-frequency estimate after one step
    if case["complete"]:
        n = len(data)
        for k, (ci, hi) in enumerate(tun):
            c = prog["clauses"][ci]
            if c[0] == "rule" or (c[0] == "ad" and c[2]):
                continue
            cnt = sum(1 for ex in data for a, v in ex if a == mine[k] and v)
            # the atom must not be derivable in another way
            if sum(1 for cc in prog["clauses"] if (cc[0] in ("fact", "rule") and cc[2][0] == mine[k]) or (
                    cc[0] == "ad" and any(h[1][0] == mine[k] for h in cc[1]))) != 1:
                continue
            exp = cnt / float(n)
            COUNTERS["mle_checked"] += 1
            if abs(history[1][k] - exp) > 1e-9:
                add("not-relative-frequency" + tag + ("|normalize" if case["normalize"] else ""),
                    "complete data: %s is true in %d of %d interpretations, one step gives %r instead of %r" % (
                    mine[k], cnt, n, history[1][k], exp))
    COUNTERS["runs:%s:%s" % ("ad" if case["has_ad"] else "noad", "complete" if case["complete"] else "partial")] += 1
    if viols:
        return viol(viols[0][0], viols[0][1], feat=feats, sample=text, extra_viols=viols[1:])
    return ok(nontrivial=len(tun) >= 2 and len(data) >= 5, key=text + dtxt, feat=feats, sample=text)


def floors(agg):
    c = agg["counters"]
    out = []
    for k, m in (("steps", 100), ("reported_ll_checked", 50), ("monotonicity_steps_checked", 50), ("mle_checked", 10),
                 ("runs:ad:partial", 1), ("runs:noad:partial", 3), ("runs:ad:complete", 1), ("weight_vectors_checked", 100)):
        if c.get(k, 0) < m:
            out.append("%s = %d < %d" % (k, c.get(k, 0), m))
    return out
