"""C05 All exact compilation backends and semirings agree."""
from ..core import ok, viol, skip, COUNTERS, short_exc
from ..gen import prog as G
from ..ref import worlds
from .. import sut, judge
from . import c12

ID = "C05"
LEVEL = "exploration"
NEEDS_DEPS = True
RULE = ("case = generated program (C01 fragment, plus deterministic/builtin/findall queries and evidence) compiled with every "
        "available exact backend (default choice, ddnnf, nnf alias; sdd/sddx/fsdd/bdd/fbdd only if importable) and evaluated with "
        "the probability, log-probability, user-defined (non-subclass) probability, its neutral-sum (NSP) variant and the symbolic "
        "semiring; all numbers must agree pairwise (1e-9) and with the possible-world reference; the symbolic expression is "
        "evaluated by a whitelist evaluator; non-trivial = >= 2 relevant choices; distinct by program text")
ASSUMPTIONS = ["PySDD is not installed in this sandbox: SDD/BDD/forward backends are probed at run time and recorded as unavailable; the "
               "claim covers the default choice, d-DNNF/NNF and all semiring variants",
               "icontract post-conditions on SemiringProbability/SemiringLogProbability plus/times stay on during evaluation"]
LEVEL_TEXT = ("Each generated program is pushed through every runnable backend x semiring combination and all results are compared with "
              "each other and with exact enumeration, with semiring contracts watching the values that actually flow.")
LEVEL_NOTE = "Backends needing PySDD cannot be executed here (reported in evidence as unavailable)."
TECHNIQUE = "runtime differential monitor across backends x semirings + reference-model oracle + semiring contracts"
BUDGET = {"quick": 700, "thorough": 12000}
TIME_BUDGET = {"quick": 220, "thorough": 3300}
CASE_TIMEOUT = 40
WATCHDOG_FRACTION = 0.04

_S = {}


def setup_worker(tier):
    from problog.evaluator import Semiring, SemiringProbability
    import problog
    c12.install_contracts()

    class Copy(Semiring):
        """user-defined probability semiring that does not extend SemiringProbability (forces the custom-semiring code)"""

        def __init__(self):
            self._s = SemiringProbability()

        def one(self):
            return self._s.one()

        def zero(self):
            return self._s.zero()

        def is_one(self, v):
            return self._s.is_one(v)

        def is_zero(self, v):
            return self._s.is_zero(v)

        def plus(self, a, b):
            return self._s.plus(a, b)

        def times(self, a, b):
            return self._s.times(a, b)

        def negate(self, a):
            return self._s.negate(a)

        def normalize(self, a, z):
            return self._s.normalize(a, z)

        def value(self, a):
            return self._s.value(a)

        def is_dsp(self):
            return True

        def in_domain(self, a):
            return self._s.in_domain(a)

    class NSP(Copy):
        def is_nsp(self):
            return True

        def pos_value(self, a, key=None):
            return float(a[0]) if isinstance(a, tuple) else float(a)

        def neg_value(self, a, key=None):
            return float(a[1]) if isinstance(a, tuple) else 1 - float(a)
    _S["Copy"], _S["NSP"] = Copy, NSP
    avail = []
    for name in ("sdd", "sddx", "fsdd", "bdd", "fbdd"):
        try:
            cls = problog.get_evaluatable(name)
            if not hasattr(cls, "is_available") or cls.is_available():
                avail.append(name)
        except Exception:
            pass
    _S["extra_backends"] = avail
    for name in ("sdd", "sddx", "fsdd", "bdd", "fbdd"):
        COUNTERS["backend_available:%s" % name] += 1 if name in avail else 0
        COUNTERS["backend_unavailable:%s" % name] += 0 if name in avail else 1


def gen_case(rng, i, tier):
    p = G.gen(rng, stratified=True)
    extra = []
    if i % 4 == 0:
        p["queries"].append(G.L("dom", [p["consts"][0]]))           # deterministically true query
    if i % 4 == 1:
        p = G.add_tautologies(rng, p)
    if i % 5 == 0:
        # builtin / findall wrappers: deterministic bookkeeping on top of probabilistic goals
        extra = ["cnt(N) :- findall(X, dom(X), L), length(L, N).", "query(cnt(_)).",
                 "big :- dom(X), X > 1, f0%s." % ("" if _arity(p, "f0") == 0 else "(%s)" % ",".join(["X"] * _arity(p, "f0"))), "query(big)."]
    return dict(prog=p, extra=extra)


def _arity(p, name):
    for c in p["clauses"]:
        if c[0] in ("fact", "rule") and c[2][0] == name:
            return len(c[2][1])
    return 0


def semirings():
    from problog.evaluator import SemiringProbability, SemiringLogProbability, SemiringSymbolic
    return [("default", None), ("prob", SemiringProbability()), ("logprob", SemiringLogProbability()), ("copy", _S["Copy"]()),
            ("nsp", _S["NSP"]()), ("symbolic", SemiringSymbolic())]


def run_case(case):
    from problog import get_evaluatable
    from problog.program import PrologString
    prog = case["prog"]
    F = G.features(prog)
    R = worlds.reference(prog, max_worlds=1 << 10, cyc_preds=G.cyclic_preds(prog))
    if R.status == "too_big":
        return skip("reference too big")
    F = G.refine_with_reference(F, R)
    cls = judge.input_class(F)
    text = G.to_text(prog) + "\n".join(case.get("extra", [])) + "\n"
    feats = G.feat_list(F)
    first = None
    n = 0
    for backend in [None, "ddnnf", "nnf"] + _S["extra_backends"]:
        try:
            formula = get_evaluatable(backend).create_from(PrologString(text))
        except Exception as e:  # noqa
            o = sut.outcome_of_exception(e)
            formula = None
        for sname, sr in semirings():
            if formula is None:
                cur = o
            else:
                try:
                    res = formula.evaluate(semiring=sr) if sr is not None else formula.evaluate()
                    cur = dict(kind="ok", result={str(k): v for k, v in res.items()})
                except c12.ContractBroken as e:
                    return viol("semiring-contract", short_exc(e) + "\n" + text, feat=feats, sample=text)
                except Exception as e:  # noqa
                    cur = sut.outcome_of_exception(e)
            COUNTERS["combo:%s/%s" % (backend or "auto", sname)] += 1
            n += 1
            if sname == "symbolic" and first is not None and first[2]["kind"] == "inconsistent":
                continue   # no number exists; the symbolic semiring cannot decide that an expression is zero
            if sname == "symbolic" and cur["kind"] == "ok":
                conv = {}
                for k, v in cur["result"].items():
                    try:
                        conv[k] = float(c12.sym_eval(str(v)))
                    except Exception as e:  # noqa
                        return viol("symbolic:malformed-expression", "backend %s: %s -> %r cannot be evaluated (%s)\n%s" % (
                            backend, k, v, short_exc(e), text), feat=feats, sample=text)
                cur = dict(kind="ok", result=conv)
            if first is None:
                first = (backend, sname, cur)
                # the first combination is anchored to the reference (extra builtin queries are not in the reference)
                anchored = dict(cur)
                if cur["kind"] == "ok":
                    anchored = dict(kind="ok", result={k: v for k, v in cur["result"].items() if not k.startswith(("cnt(", "big"))})
                v = judge.judge(anchored, R, F)
                if v is not None:
                    return viol("baseline:" + v[0], v[1] + "\n" + text, feat=feats, sample=text)
                continue
            if sname == "symbolic" and first[2]["kind"] == "inconsistent":
                continue   # no number exists; the symbolic semiring cannot decide that an expression is zero
            d = sut.same_outcome(first[2], cur)
            if d is not None:
                if first[2]["kind"] == "ok" and cur["kind"] == "ok":
                    sig = "combo-diff:%s/%s:%s" % (backend or "auto", sname, d[0])
                else:
                    sig = "combo-diff:%s/%s:%s->%s|%s" % (backend or "auto", sname, first[2].get("sig", first[2]["kind"]),
                                                         cur.get("sig", cur["kind"]), cls)
                return viol(sig, "%s/%s differs from %s/%s: %s\n%s" % (backend or "auto", sname, first[0] or "auto", first[1], d[1], text),
                            feat=feats, sample=text)
    return ok(nontrivial=R.nchoices >= 2, feat=feats, sample=text, n=n)


def floors(agg):
    c = agg["counters"]
    out = []
    for b in ("auto", "ddnnf", "nnf"):
        for s in ("default", "prob", "logprob", "copy", "nsp", "symbolic"):
            if not c.get("combo:%s/%s" % (b, s)):
                out.append("combination %s/%s never exercised" % (b, s))
    if not c.get("contract:SemiringLogProbability.plus"):
        out.append("semiring contracts never evaluated")
    return out
