"""C21 DT-ProbLog and MAP return optimal strategies."""
import itertools
import os
import tempfile
from fractions import Fraction as F

from ..core import ok, viol, skip, COUNTERS
from ..gen import prog as G
from ..ref import worlds
from .. import sut, judge, instrument

ID = "C21"
LEVEL = "exploration"
RULE = ("case = (dt) generated decision-theoretic program: probabilistic facts, 1-5 decision facts (?::d), ADs, rules mixing decisions, "
        "facts and negation, utilities on decisions, derived atoms and negated atoms; solved with search=exhaustive and search=local; "
        "the reference computes the expected utility of every strategy by possible-world enumeration: exhaustive must return a "
        "maximising strategy and its exact expected utility, local must return a strategy that no single flip improves, with its "
        "exact expected utility; (map) program with query facts and evidence solved by the map task: the returned assignment and "
        "score are compared with the joint posterior (documented objective) and with the implemented objective; non-trivial = >= 2 "
        "decisions that interact in a rule body; distinct by program text")
ASSUMPTIONS = ["utilities never sit on both a and \\+a except in a tagged minority of cases (recorded double-counting defect)", "tolerance 1e-9"]
LEVEL_TEXT = "Brute-force expected-utility enumeration over all strategies versus the real search procedures (exhaustive, local) and the map task."
LEVEL_NOTE = "Trusts pbmon/ref/worlds.py for P(utility atom | strategy)."
TECHNIQUE = "runtime reference-model monitor (brute-force expected utility / joint posterior) for dt and map tasks"
BUDGET = {"quick": 400, "thorough": 6000}
TIME_BUDGET = {"quick": 220, "thorough": 3300}
CASE_TIMEOUT = 60
WATCHDOG_FRACTION = 0.04


def setup_worker(tier):
    instrument.reach_install({"dtproblog.py": ["search_exhaustive", "search_local", "evaluate"]})


def gen_case(rng, i, tier):
    L = G.L
    if i % 4 == 3:
        return gen_map(rng)
    nd = rng.randint(1, 4)
    dec = ["d%d" % k for k in range(nd)]
    facts = [["fact", rng.choice(G.PAL), L("f%d" % k)] for k in range(rng.randint(1, 3))]
    cl = list(facts)
    fn = [c[2][0] for c in facts]
    derived = []
    for j in range(rng.randint(1, 4)):
        h = "u%d" % j
        for _ in range(rng.randint(1, 2)):
            body = []
            for a in rng.sample(dec + fn + derived, min(len(dec + fn + derived), rng.randint(1, 3))):
                body.append(L(a, [], rng.random() < 0.25))
            if all(l[2] for l in body):
                body[0] = L(body[0][0])
            pr = rng.choice([None, None, rng.choice(G.PAL)])
            cl.append(["rule", pr, L(h), body])
        derived.append(h)
    if rng.random() < 0.3:
        cl.append(["ad", [["0.3", L("g0")], ["0.5", L("g1")]], [L(rng.choice(dec))]])
        derived += ["g0", "g1"]
    utils = []
    targets = rng.sample(dec + derived, min(len(dec + derived), rng.randint(1, 4)))
    for t in targets:
        neg = rng.random() < 0.25
        utils.append([t, neg, rng.choice([-8, -3, -1, 2, 5, 10, 1.5])])
    both = False
    if rng.random() < 0.1:
        t = utils[0]
        utils.append([t[0], not t[1], rng.choice([3, 7, -2])])
        both = True
    return dict(kind="dt", dec=dec, clauses=cl, utils=utils, both=both, search=["exhaustive", "local"][i % 2])


def gen_map(rng):
    L = G.L
    nq = rng.randint(2, 4)
    qf = ["q%d" % k for k in range(nq)]
    cl = [["fact", rng.choice(G.PAL), L(q)] for q in qf]
    cl += [["fact", rng.choice(G.PAL), L("h%d" % k)] for k in range(2)]
    for j in range(rng.randint(1, 3)):
        for _ in range(rng.randint(1, 2)):
            body = [L(a, [], rng.random() < 0.25) for a in rng.sample(qf + ["h0", "h1"], rng.randint(1, 3))]
            if all(l[2] for l in body):
                body[0] = L(body[0][0])
            cl.append(["rule", None, L("e%d" % j), body])
    ev = [[L("e0"), rng.random() < 0.7]]
    return dict(kind="map", qf=qf, clauses=cl, evidence=ev)


def dt_text(case):
    lines = ["?::%s." % d for d in case["dec"]]
    lines += [G.clause_txt(c) for c in case["clauses"]]
    for t, neg, val in case["utils"]:
        lines.append("utility(%s%s, %s)." % ("\\+" if neg else "", t, val))
    return "\n".join(lines) + "\n"


def expected_utility(case, strat, extra=()):
    L = G.L
    cl = [["rule", None, L(d), []] for d in case["dec"] if strat[d]] + list(case["clauses"])
    # decisions that are false still need a definition: p :- fail is expressed by having no clause; the reference treats unknown atoms as false
    prog = dict(consts=[1], clauses=cl, queries=[L(t) for t, _n, _v in case["utils"]] + [L(x) for x in extra], evidence=[])
    R = worlds.reference(prog, max_worlds=1 << 12)
    if R.status != "ok":
        return None
    if extra:
        return {x: F(R.probs.get(x, 0)) for x in extra}
    eu = F(0)
    for t, neg, val in case["utils"]:
        p = F(R.probs.get(t, 0))
        if t in case["dec"]:
            p = F(1 if strat[t] else 0)
        eu += F(str(val)) * ((1 - p) if neg else p)
    return eu


def run_dt(case):
    from problog.program import PrologString
    from problog.tasks.dtproblog import dtproblog
    text = dt_text(case)
    dec = case["dec"]
    eus = {}
    for bits in itertools.product([0, 1], repeat=len(dec)):
        strat = dict(zip(dec, bits))
        eu = expected_utility(case, strat)
        if eu is None:
            return skip("reference failed")
        eus[bits] = eu
    best = max(eus.values())
    try:
        choices, score, stats = dtproblog(PrologString(text), search=case["search"])
    except Exception as e:  # noqa
        o = sut.outcome_of_exception(e)
        return viol("dt:%s:%s" % (case["search"], o["sig"]), "dtproblog raised %s\n%s" % (sut.describe(o), text), sample=text)
    COUNTERS["dt_%s" % case["search"]] += 1
    got = {}
    for k, v in choices.items():
        name = str(k.args[2]) if k.functor == "choice" else str(k)
        got[name] = int(v)
    tag = "|utility-on-atom-and-negation" if case["both"] else ""
    # strategies compatible with the returned (possibly partial) assignment
    # a decision may be reported under the name of an atom that shares its node (u1 :- d0. as the only clause): such names are
    # resolved by requiring that the atom's truth value under the strategy equals the reported value
    aliases = sorted(k for k in got if k not in dec)
    compat = []
    for bits in eus:
        if not all(got.get(d, b) == b for d, b in zip(dec, bits)):
            continue
        if aliases:
            pr = expected_utility(case, dict(zip(dec, bits)), extra=aliases)
            if pr is None or any(pr[a] != got[a] for a in aliases):
                continue
        compat.append(bits)
    if not compat:
        return viol("dt:%s:unknown-decision" % case["search"], "returned decisions %s do not match the program's decisions %s\n%s" % (got, dec, text), sample=text)
    eu_ret = {float(eus[b]) for b in compat}
    nt = len(dec) >= 2
    if len(eu_ret) > 1:
        # a decision that is missing from the answer matters for the expected utility
        return viol("dt:%s:relevant-decision-missing%s" % (case["search"], tag), "returned strategy %s omits a decision that changes the expected "
                    "utility (%s)\n%s" % (got, sorted(eu_ret), text), nontrivial=nt, sample=text)
    eu_r = eu_ret.pop()
    if abs(float(score) - eu_r) > 1e-9 + 1e-9 * abs(eu_r):
        zero = "|no-relevant-decision" if not got else ""
        return viol("dt:%s:wrong-score%s%s" % (case["search"], tag, zero), "reported score %.10g, the expected utility of the returned strategy %s is "
                    "%.10g\n%s" % (score, got, eu_r, text), nontrivial=nt, sample=text)
    if case["search"] == "exhaustive":
        if eu_r < float(best) - 1e-9:
            return viol("dt:exhaustive:not-optimal%s" % tag, "returned strategy %s has expected utility %.10g, the optimum is %.10g\n%s" % (
                got, eu_r, float(best), text), nontrivial=nt, sample=text)
    else:
        b0 = compat[0]
        for k in range(len(dec)):
            fl = tuple(1 - x if j == k else x for j, x in enumerate(b0))
            if float(eus[fl]) > eu_r + 1e-9:
                return viol("dt:local:flip-improves%s" % tag, "flipping %s in the returned strategy %s improves the expected utility from %.10g to "
                            "%.10g\n%s" % (dec[k], got, eu_r, float(eus[fl]), text), nontrivial=nt, sample=text)
    return ok(nontrivial=nt, feat=["dt", case["search"]], sample=text)


def run_map(case):
    from problog.tasks import map as maptask
    L = G.L
    prog = dict(consts=[1], clauses=case["clauses"], queries=[L(q) for q in case["qf"]], evidence=case["evidence"])
    R = worlds.reference(prog, max_worlds=1 << 12, want_joint=True)
    if R.status != "ok":
        return skip("reference " + R.status)
    text = G.to_text(prog)
    fd, fn = tempfile.mkstemp(suffix=".pl")
    with os.fdopen(fd, "w") as f:
        f.write(text)
    try:
        succ, res = maptask.main([fn], result_handler=lambda result, output: result)
    except Exception as e:  # noqa
        succ, res = False, e
    finally:
        os.unlink(fn)
    if not succ:
        o = sut.outcome_of_exception(res)
        return viol("map:%s" % o["sig"], "map raised %s\n%s" % (sut.describe(o), text), sample=text)
    choices, score, stats = res
    COUNTERS["map_runs"] += 1
    got = {str(k): int(v) for k, v in choices.items()}
    qnames = [worlds.aname(a) for a in R.qatoms]
    marg = {q: float(R.probs[q]) for q in qnames}
    # implemented objective: sum over query facts of the posterior marginal agreeing with the assignment
    def impl(assign):
        return sum(marg[q] if assign[q] else 1 - marg[q] for q in qnames)
    if set(got) != set(qnames):
        return viol("map:assignment-incomplete", "assignment %s, query facts %s\n%s" % (got, qnames, text), sample=text)
    best_impl = max(impl(dict(zip(qnames, bits))) for bits in itertools.product([0, 1], repeat=len(qnames)))
    if abs(impl(got) - best_impl) > 1e-9:
        return viol("map:not-optimal-for-implemented-objective", "assignment %s has summed-marginal score %.10g, optimum %.10g\n%s" % (
            got, impl(got), best_impl, text), sample=text)
    if abs(float(score) - impl(got)) > 1e-9:
        return viol("map:wrong-score", "reported score %.10g, summed posterior marginals of the assignment %.10g\n%s" % (score, impl(got), text), sample=text)
    # documented objective: joint posterior of the assignment
    joint = R.joint
    key = tuple(bool(got[q]) for q in qnames)
    pj = float(joint.get(key, 0))
    bestj = max(float(v) for v in joint.values())
    if pj < bestj - 1e-9:
        return viol("map:not-joint-optimal", "assignment %s has joint posterior %.10g, another assignment has %.10g (the task maximises the sum of "
                    "posterior marginals, not the documented joint MAP)\n%s" % (got, pj, bestj, text), sample=text)
    return ok(nontrivial=len(qnames) >= 2, feat=["map"], sample=text)


def run_case(case):
    return run_dt(case) if case["kind"] == "dt" else run_map(case)


def floors(agg):
    c = agg["counters"]
    return ["monitor %s is zero" % k for k in ("dt_exhaustive", "dt_local", "map_runs") if not c.get(k)]
