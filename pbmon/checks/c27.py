"""C27 User errors surface as ProbLog errors, never as crashes."""
import contextlib
import io
import os
import tempfile

from ..core import ok, viol, COUNTERS
from ..gen import terms as T
from ..gen import prog as G
from .. import sut
from . import c17

ID = "C27"
LEVEL = "exploration"
RULE = ("case = batch of program texts run END TO END (parse, ground, compile, evaluate) through get_evaluatable().create_from("
        "PrologString(t)).evaluate() and the probability CLI: (a) token-level mutations of the corpus files of /repo/test and of "
        "generated programs, (b) calls of EVERY builtin registered in the engine (enumerated at run time) with random argument shapes "
        "(variable, atom, int, float, string, list, partial list, compound, nested terms), alone and inside probabilistic clauses, "
        "(c) semantic user errors: undefined predicates, non-ground probabilistic facts/clauses, invalid probabilities, wrong call "
        "modes, evidence on undefined atoms; the outcome must be a result or a ProbLogError subclass - any other exception is a "
        "violation keyed by (exception class, innermost frame in problog); non-trivial = text with >= 3 clauses; distinct by text")
ASSUMPTIONS = ["texts <= 4 kB, nesting <= 6: RecursionError/MemoryError from resource exhaustion are out of scope",
               "output of write/debugprint builtins is discarded; consult/use_module of non-existing files must raise a ProbLog error"]
LEVEL_TEXT = ("Thousands of hostile texts per run through the whole pipeline and the CLI, including every registered builtin; each "
              "non-ProbLog exception is keyed by class + raising frame so that new crash sites are violations while listed ones print "
              "KNOWN-FINDING.")
LEVEL_NOTE = "The list of builtins is read from the engine at run time, so new builtins are fuzzed automatically."
TECHNIQUE = "runtime fuzzing monitor (token mutation + builtin call-shape fuzzing) with exception-class oracle"
BUDGET = {"quick": 700, "thorough": 10000}
TIME_BUDGET = {"quick": 220, "thorough": 3300}
CASE_TIMEOUT = 60
WATCHDOG_FRACTION = 0.05

_S = {}
SKIP_BUILTINS = {"trace/0", "notrace/0", "dbg_printdb/0", "print_state/0"}


def setup_worker(tier):
    c17.setup_worker(tier)
    from problog.engine import DefaultEngine
    _S["builtins"] = sorted(k for k in DefaultEngine().get_builtins().keys() if k not in SKIP_BUILTINS)


def gen_case(rng, i, tier):
    return dict(mode=["fuzz", "builtin", "builtin", "semantic"][i % 4], seed=rng.randrange(1 << 30), n=12)


def rand_arg(rng):
    k = rng.random()
    if k < 0.2:
        return rng.choice(["X", "Y", "_"])
    if k < 0.3:
        return rng.choice(["[1|T]", "[a,b|X]"])
    t = T.rand_term(rng, rng.choice([0, 0, 1, 2, 3]), nvars=2, strings=True)
    return T.txt(t)


def builtin_program(rng):
    name = rng.choice(_S["builtins"])
    f, ar = name.rsplit("/", 1)
    ar = int(ar)
    fq = f if f[0].isalpha() and f.replace("_", "a").isalnum() and f[0].islower() else "'%s'" % f
    call = fq if ar == 0 else "%s(%s)" % (fq, ",".join(rand_arg(rng) for _ in range(ar)))
    ctx = rng.randrange(5)
    lines = ["0.4::pf(1). 0.5::pf(2). d(1). d(2)."]
    if ctx == 0:
        lines += ["q :- %s." % call, "query(q)."]
    elif ctx == 1:
        lines += ["q(X) :- d(X), %s." % call, "query(q(_))."]
    elif ctx == 2:
        lines += ["0.3::q(X) :- pf(X), %s." % call, "query(q(_)).", "evidence(pf(1))."]
    elif ctx == 3:
        lines += ["q :- \\+ %s." % call, "query(q)."]
    else:
        lines += ["q(L) :- findall(X, (d(X), %s), L)." % call, "query(q(_))."]
    return "\n".join(lines) + "\n", name


SEMANTIC = [
    "0.3::a(X). query(a(1)).", "0.3::a(X) :- b(Y). b(1). query(a(_)).", "query(undefined_pred(1)).", "a :- undefined_pred. query(a).",
    "1.5::a. query(a).", "-0.1::a. query(a).", "abc::a. query(a).", "X::a. query(a).", "0.5::a; 0.6::b. query(a). query(b).",
    "a. evidence(zzz, true). query(a).", "a. evidence(a, maybe). query(a).", "query(X).", "query(1).", "query(\"str\").", "evidence(1).",
    "a :- X is foo + 1. query(a).", "a :- X is 1/0. query(a).", "a :- X is Y + 1. query(a).", "a :- 1 < b. query(a).",
    "a :- atom_number(X, Y). query(a).", "a :- length(L, N). query(a).", "a :- between(a, b, X). query(a).", "a :- arg(x, f(a), X). query(a).",
    "a :- functor(X, Y, Z). query(a).", "a :- X =.. Y. query(a).", "a :- call(1). query(a).", "a :- call(X). query(a).", "a :- findall(X, Y, Z). query(a).",
    ":- use_module(library(no_such_lib)). a. query(a).", ":- consult('no_such_file.pl'). a. query(a).", ":- foo. a. query(a).",
    "a :- a. query(a).", "a :- \\+ a. query(a).", "0.5::a. a :- \\+ a. query(a).", "a(X) :- a(f(X)). query(a(1)).",
    "0.3::a :- fail. query(a).", "t(0.5)::a. query(a).", "t(_)::a. query(a).", "?::a. query(a).", "utility(a, 1). ?::a. query(a).",
    "a :- subquery(b, P). query(a).", "a :- subquery(b, P, [c]). 0.5::b. query(a).", "a :- sort(a, X). query(a).", "a :- compare(x, 1, 2). query(a).",
    "a :- succ(a, X). query(a).", "a :- plus(1, X, Y). query(a).", "query(a; b). a. b.", "query((a, b)). a. b.", "0.5::(a, b). query(a).",
    "a :- set_state(x). query(a).", "a :- check_state(x). query(a).", "a :- reset_state. query(a).", "a :- condition(x). query(a).",
    "a :- create_scope(x, S). query(a).", "a :- find_scope(x, S). query(a).", "a :- call_in_scope(x, b). b. query(a).",
    "a :- X = f(X). query(a).", "a :- X =.. [1,2]. query(a).", "a :- X =.. [\"s\",a]. query(a).", "a :- X =.. [f|T]. query(a).", "a :- X =.. []. query(a).",
    "a :- X =.. [1.5,a,b]. query(a).", "p(3). a :- p(N), X =.. [N,a]. query(a).", "a :- X =.. [f(a),b]. query(a).", "a :- X =.. [Y,b]. query(a).",
    "a :- functor(X, 1, 2). query(a).", "a :- functor(X, f, -1). query(a).", "a :- functor(X, f, a). query(a).", "a :- arg(0, f(a), X). query(a).",
    "a :- length(L, -1). query(a).", "a :- length(L, a). query(a).", "a :- between(1, a, X). query(a).", "a :- succ(X, Y). query(a).",
    "a :- atom_number(1, X). query(a).", "a :- sort([a|T], X). query(a).", "a :- compare(O, X, Y). query(a).", "a :- numbervars(f(X), 0, E). query(a).", "a :- seq(X). query(a).", "a :- varnumbers(f(1), X). query(a).",
]


def semantic_program(rng):
    t = rng.choice(SEMANTIC)
    if rng.random() < 0.3:
        t = t.replace("query(a).", "query(a). evidence(a).")
    return t.replace(". ", ".\n") + "\n", "semantic"


def run_text(text, use_cli):
    sink = io.StringIO()
    with contextlib.redirect_stdout(sink), contextlib.redirect_stderr(sink):
        if use_cli:
            from problog.tasks import probability
            fd, fn = tempfile.mkstemp(suffix=".pl")
            with os.fdopen(fd, "w") as f:
                f.write(text)
            try:
                succ, res = probability.main_result([fn])
            except SystemExit:
                return dict(kind="ok", result={})
            except BaseException as e:  # noqa
                if type(e).__name__ == "Watchdog":
                    raise
                return sut.outcome_of_exception(e)
            finally:
                os.unlink(fn)
            if succ:
                return dict(kind="ok", result={})
            return sut.outcome_of_exception(res)
        return sut.evaluate_text(text)


def run_case(case):
    import random
    rng = random.Random(case["seed"])
    vs = []
    n = 0
    nt = False
    for j in range(case["n"]):
        if case["mode"] == "fuzz":
            if rng.random() < 0.7 and c17._S.get("corpus"):
                base = rng.choice(c17._S["corpus"])
            else:
                base = G.to_text(G.gen(rng, stratified=rng.random() < 0.7), disj=rng.random() < 0.3)
            text = c17.mutate(rng, base)
            what = "fuzz"
        elif case["mode"] == "builtin":
            text, what = builtin_program(rng)
        else:
            text, what = semantic_program(rng)
        if any(w in text for w in ("halt", "load_external", "sqlite", "csv_load", "excel")):
            continue
        n += 1
        if text.count(".") >= 3:
            nt = True
        import signal
        from ..core import Watchdog
        try:
            signal.alarm(6)          # per-text logical budget; the framework's per-case alarm is re-armed below
            o = run_text(text, use_cli=(j % 4 == 3))
            signal.alarm(40)
        except Watchdog:
            signal.alarm(40)
            COUNTERS["text_timeouts"] += 1
            continue
        except RecursionError:
            signal.alarm(40)
            COUNTERS["recursion_skipped"] += 1
            continue
        COUNTERS["outcome_%s" % o["kind"]] += 1
        if what not in ("fuzz", "semantic"):
            COUNTERS["builtin_calls"] += 1
        if o["kind"] == "crash":
            if o["exc"] in ("RecursionError", "MemoryError"):
                continue
            vs.append(("crash:%s" % o["sig"], "%s raised by (%s):\n%s" % (sut.describe(o), what, text[:700])))
    seen, uniq = set(), []
    for v in vs:
        if v[0] not in seen:
            seen.add(v[0])
            uniq.append(v)
    if uniq:
        return viol(uniq[0][0], uniq[0][1], nontrivial=nt, n=max(1, n), feat=[case["mode"]], extra_viols=[list(x) for x in uniq[1:]],
                    sample="%s seed %d" % (case["mode"], case["seed"]))
    return ok(nontrivial=nt, n=max(1, n), feat=[case["mode"]], sample="%s seed %d" % (case["mode"], case["seed"]))


def floors(agg):
    c = agg["counters"]
    return ["monitor %s is zero" % k for k in ("outcome_ok", "outcome_problog_error", "builtin_calls") if not c.get(k)]
