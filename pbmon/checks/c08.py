"""C08 A query's answer does not depend on what else was grounded before it (history checker on a shared target)."""
from ..core import ok, viol, skip, COUNTERS
from ..gen import prog as G
from ..ref import worlds
from .. import sut, judge, instrument

ID = "C08"
LEVEL = "exploration"
RULE = ("case = generated program + a seeded history of engine.ground / ground_all / engine.query calls (queries in shuffled order, "
        "evidence before/after/between, non-ground calls before ground instances, calls that fail with UnknownClause in between) "
        "sharing ONE target formula and ONE prepared ClauseDB; after the history the shared target is evaluated and every query is "
        "compared with a fresh single-query grounding under the same evidence (and with the possible-world reference); templates "
        "with compound terms whose answers keep nested variables are included (fresh grounding is their oracle); non-trivial = "
        "history with >= 3 grounding calls and >= 1 cross-call table hit; distinct by program text + history")
ASSUMPTIONS = ["a fresh engine object is used for the fresh groundings; reuse of one engine object after a GroundingError is probed separately",
               "evidence is always part of both the shared and the fresh grounding"]
LEVEL_TEXT = ("Random grounding histories over a shared target are replayed on the real engine with DefineCache instrumented, so that the "
              "table reuse the property is about is observed (cross-call hits are counted) and every answer is compared with a fresh run.")
LEVEL_NOTE = "Known engine crashes on the non-clean input class depend on grounding history; they are listed findings keyed by call site + input class."
TECHNIQUE = "runtime history monitor: shared-target grounding histories vs fresh single-query groundings + table-hit counters"
BUDGET = {"quick": 600, "thorough": 6000}
TIME_BUDGET = {"quick": 220, "thorough": 3300}
CASE_TIMEOUT = 60
WATCHDOG_FRACTION = 0.04

TEMPLATES = [
    # (program text, list of query texts) - compound terms, answers with nested variables, general before specific
    ("0.3::q. 0.4::a0.\np(f(_)) :- q.\np(f(a)) :- a0.\nr :- p(X), X = f(a).\n", ["r", "p(f(a))", "p(f(b))"]),
    ("0.3::q. 0.4::a0. 0.5::b0.\np(f(_),1) :- q.\np(f(a),1) :- a0.\np(g(X),X) :- b0.\nr(Y) :- p(X,Y), X = f(a).\n",
     ["r(_)", "p(f(a),1)", "p(g(2),2)", "p(f(a),_)"]),
    ("0.6::e(1,2). 0.5::e(2,3). 0.4::e(3,1).\npath(X,Y,[X,Y]) :- e(X,Y).\npath(X,Y,[X|P]) :- e(X,Z), Z \\== Y, path(Z,Y,P), \\+ member(X,P).\n"
     ":- use_module(library(lists)).\nreach(X,Y) :- path(X,Y,_).\n", ["reach(1,3)", "reach(1,_)", "path(1,3,_)", "reach(2,1)"]),
    ("0.3::q(1). 0.6::q(2). 0.5::w.\ns(l(X,Y)) :- q(X), q(Y).\ns(l(_,0)) :- w.\nt :- s(l(1,Z)), Z > 0.\n", ["t", "s(l(1,2))", "s(l(1,0))", "s(l(2,_))"]),
]

_hits = {"n": 0}


def setup_worker(tier):
    from problog.engine_stack import DefineCache
    orig_get = DefineCache.__getitem__

    def getitem(self, goal):
        r = orig_get(self, goal)
        COUNTERS["table_hits"] += 1
        _hits["n"] += 1
        return r
    DefineCache.__getitem__ = getitem
    instrument.reach_install({"engine_stack.py": ["DefineCache.__setitem__", "DefineCache.activate"]})


def gen_case(rng, i, tier):
    if i % 6 == 5:
        t = rng.randrange(len(TEMPLATES))
        qs = list(TEMPLATES[t][1])
        order = list(range(len(qs)))
        rng.shuffle(order)
        return dict(template=t, order=order, fail_at=rng.choice([None, 0, 1]))
    p = G.gen(rng, stratified=True, n_evidence=rng.choice([0, 1, 2]))
    # more queries: ground and non-ground instances of the same predicates
    preds = {}
    for hs, body, _p in G.rules_of(p):
        for h in hs:
            preds[h[0]] = len(h[1])
    names = sorted(preds)
    for _ in range(rng.randint(2, 4)):
        n = rng.choice(names)
        q = G.L(n, [rng.choice(["_"] + p["consts"]) for _ in range(preds[n])])
        if q not in p["queries"]:
            p["queries"].append(q)
    nq = len(p["queries"])
    order = list(range(nq))
    rng.shuffle(order)
    ev_pos = rng.choice(["first", "last", "middle"])
    return dict(prog=p, order=order, ev_pos=ev_pos, fail_at=rng.choice([None, None, 0, 1]),
                use_ground_all=(i % 4 == 0), propagate=(i % 8 == 0), extra_query_calls=rng.randint(0, 2))


_TERMS = {}


def _term(txt):
    """parse a query/evidence term exactly as problog does for query/1 facts (anonymous variables stay distinct)"""
    from problog.logic import Term
    from problog.program import PrologString
    from problog.engine import DefaultEngine
    if txt not in _TERMS:
        eng = DefaultEngine()
        db = eng.prepare(PrologString("query(%s)." % txt))
        _TERMS[txt] = eng.query(db, Term("query", None))[0][0]
    return _TERMS[txt]


def shared_history(prog_text, query_txts, order, evidence, ev_pos, fail_at, use_ground_all, propagate, extra_query_calls):
    """replay the history on one engine / one db / one target; returns outcome dict"""
    from problog.program import PrologString
    from problog.engine import DefaultEngine
    from problog.formula import LogicFormula
    from problog import get_evaluatable
    from problog.errors import ProbLogError
    eng = DefaultEngine()
    db = eng.prepare(PrologString(prog_text))
    gp = LogicFormula()
    ncalls = 0
    try:
        def do_evidence():
            n = 0
            for etxt, val in evidence:
                eng.ground(db, _term(etxt), gp, label=gp.LABEL_EVIDENCE_POS if val else gp.LABEL_EVIDENCE_NEG)
                n += 1
            return n
        if use_ground_all:
            qterms = [_term(query_txts[k]) for k in order]
            evs = [(_term(e), v) for e, v in evidence]
            gp = eng.ground_all(db, target=gp, queries=qterms[: len(qterms) // 2], evidence=evs, propagate_evidence=propagate)
            ncalls += 1 + len(evs)
            rest = order[len(order) // 2:]
        else:
            rest = order
            if ev_pos == "first":
                ncalls += do_evidence()
        for j, k in enumerate(rest):
            if fail_at == j:
                # a call that fails in between (fresh engine object: engine reuse after an error is a separate finding)
                try:
                    DefaultEngine().ground(db, _term("undefined_pred_xyz(1)"), gp, label="query")
                except ProbLogError:
                    COUNTERS["failing_calls_between"] += 1
            if not use_ground_all and ev_pos == "middle" and j == len(rest) // 2:
                ncalls += do_evidence()
            eng.ground(db, _term(query_txts[k]), gp, label=gp.LABEL_QUERY)
            ncalls += 1
            if extra_query_calls and j < extra_query_calls:
                eng.query(db, _term(query_txts[k]))
                COUNTERS["interleaved_query_calls"] += 1
        if not use_ground_all and ev_pos == "last":
            ncalls += do_evidence()
        res = get_evaluatable().create_from(gp).evaluate()
        return dict(kind="ok", result={str(k): v for k, v in res.items()}), ncalls
    except Exception as e:  # noqa
        return sut.outcome_of_exception(e), ncalls


def fresh_single(prog_text, qtxt, evidence, propagate=False):
    from problog.program import PrologString
    from problog.engine import DefaultEngine
    from problog.formula import LogicFormula
    from problog import get_evaluatable
    try:
        eng = DefaultEngine()
        db = eng.prepare(PrologString(prog_text))
        # same options as the shared history: only the history differs
        gp = eng.ground_all(db, target=LogicFormula(), queries=[_term(qtxt)], evidence=[(_term(e), v) for e, v in evidence],
                            propagate_evidence=propagate)
        res = get_evaluatable().create_from(gp).evaluate()
        return dict(kind="ok", result={str(k): v for k, v in res.items()})
    except Exception as e:  # noqa
        return sut.outcome_of_exception(e)


def run_case(case):
    _hits["n"] = 0
    if "template" in case:
        text, qs = TEMPLATES[case["template"]]
        evidence = []
        F = {"clean": True}
        cls = "clean"
        R = None
        feats = ["template"]
        o, ncalls = shared_history(text, qs, case["order"], evidence, "first", case["fail_at"], False, False, 1)
    else:
        prog = case["prog"]
        F = G.features(prog)
        R = worlds.reference(prog, max_worlds=1 << 10, cyc_preds=G.cyclic_preds(prog))
        if R.status == "too_big":
            return skip("reference too big")
        F = G.refine_with_reference(F, R)
        cls = judge.input_class(F)
        feats = G.feat_list(F)
        text = G.to_text(prog, queries=False, evidence=False)
        qs = [G.lit_txt(q) for q in prog["queries"]]
        evidence = [(G.lit_txt(e), v) for e, v in prog["evidence"]]
        o, ncalls = shared_history(text, qs, case["order"], evidence, case["ev_pos"], case["fail_at"], case["use_ground_all"],
                                   case["propagate"], case["extra_query_calls"])
    hist = "queries in order %s, evidence %s" % ([qs[k] for k in case["order"]], evidence)
    hits = _hits["n"]
    if R is not None:
        if case["use_ground_all"] and case["propagate"]:
            cls = judge.input_class(F, propagate=True)
        v = judge.judge(o, R, F, propagate=bool(case["use_ground_all"] and case["propagate"]))
        if v is not None:
            return viol("history:" + v[0], v[1] + "\n" + text + hist, feat=feats, sample=text + hist)
    # compare with fresh single-query groundings
    union = {}
    for k in case["order"]:
        f = fresh_single(text, qs[k], evidence, propagate=bool(case.get("use_ground_all") and case.get("propagate")))
        if f["kind"] != "ok":
            if o["kind"] == "ok" or o.get("exc") != f.get("exc"):
                if o["kind"] != f["kind"]:
                    sig = "history-diff:%s->%s" % (f.get("sig", f["kind"]), o.get("sig", o["kind"]))
                    if cls != "clean":
                        sig += "|" + cls
                    return viol(sig, "fresh grounding of %s gives %s but the shared target gives %s\n%s%s" % (
                        qs[k], sut.describe(f), sut.describe(o), text, hist), feat=feats, sample=text + hist)
            continue
        for name, val in f["result"].items():
            union[name] = val
    if o["kind"] == "ok":
        d = sut.same_outcome(dict(kind="ok", result=union), o)
        if d is not None:
            sig = "history-diff:%s" % d[0]
            if cls != "clean":
                sig += "|" + cls
            return viol(sig, "shared target differs from fresh single-query groundings: %s (fresh vs shared)\n%s%s" % (d[1], text, hist),
                        feat=feats, sample=text + hist)
    elif R is None and o["kind"] != "ok":
        return viol("history-diff:ok->%s" % o["sig"], "shared history raised %s\n%s%s" % (sut.describe(o), text, hist), feat=feats,
                    sample=text + hist)
    if hits:
        COUNTERS["histories_with_table_hits"] += 1
    return ok(nontrivial=ncalls >= 3 and hits > 0, feat=feats, sample=text + hist, n=ncalls)


def floors(agg):
    c = agg["counters"]
    return ["monitor %s is zero" % k for k in ("table_hits", "histories_with_table_hits", "failing_calls_between",
                                               "interleaved_query_calls") if not c.get(k)]
