"""C19 findall/all in probabilistic programs follow the possible-world semantics."""
import itertools
from fractions import Fraction as F

from ..core import ok, viol, skip, COUNTERS
from ..gen import terms as T
from ..ref import sld
from .. import sut, instrument

ID = "C19"
LEVEL = "exploration"
RULE = ("case = generated program with ground probabilistic facts, annotated-disjunction facts, probabilistic and deterministic "
        "non-recursive rules (conjunction, negation, two clauses per predicate) and wrapper clauses q(L) :- findall(T, Goal, L) / "
        "all(T, Goal, L) queried non-ground; the reference enumerates every total choice, runs an SLD interpreter on that world's "
        "deterministic program to obtain the ordered solution list (duplicates included; all/3 fails on the empty list) and adds "
        "up world probabilities per list; every reported list and probability must match (1e-9); non-trivial = findall goal that "
        "depends on >= 2 probabilistic choices; distinct by program text")
ASSUMPTIONS = ["<= 8 probabilistic choices per program (2^8 worlds x SLD run)", "one independent choice per probabilistic fact / ground rule instance"]
LEVEL_TEXT = ("The world-splitting done by _select_sublist / enumerate_branches is compared, list by list, with explicit possible-world "
              "enumeration and a per-world Prolog run; reach counters show multi-choice sublists were produced.")
LEVEL_NOTE = "Trusts pbmon/ref/sld.py; findall order findings of C13 (non-ground facts, duplicates) are excluded by construction (ground facts, distinct solutions) except where tagged."
TECHNIQUE = "runtime reference-model monitor (possible-world enumeration x SLD interpreter) for findall/all"
BUDGET = {"quick": 700, "thorough": 12000}
TIME_BUDGET = {"quick": 200, "thorough": 3000}
CASE_TIMEOUT = 40

PAL = ["0.1", "0.3", "0.5", "0.7", "0.9", "0.2", "0.4"]


def setup_worker(tier):
    instrument.reach_install({"engine_builtin.py": ["_select_sublist", "_builtin_findall_base", "_builtin_all", "_builtin_all_or_nothing"],
                              "formula.py": ["LogicFormula.enumerate_branches", "LogicFormula.copy_node"]})


def V(n):
    return ["v", n]


def C(f, *a):
    return ["c", f, list(a)]


def gen_case(rng, i, tier):
    consts = [["i", 1], ["i", 2], ["i", 3]][: rng.choice([2, 3])]
    pf = []      # (prob, head)
    ads = []     # list of [(prob, head)...]
    det = []     # (head, body)
    prules = []  # (prob, head, body)
    nf = 0
    for c in consts:
        if rng.random() < 0.8:
            pf.append((rng.choice(PAL), C("a", c)))
        if rng.random() < 0.5:
            pf.append((rng.choice(PAL), C("b", c)))
    if rng.random() < 0.5:
        ads.append([(rng.choice(["0.3", "0.2"]), C("col", ["a", "r"])), (rng.choice(["0.4", "0.5"]), C("col", ["a", "g"]))])
    if rng.random() < 0.3:
        pf.append((rng.choice(PAL), C("a", consts[0])))      # duplicate fact: noisy-or, same solution
    if not any(h[1] == "a" for _, h in pf):
        pf.append((rng.choice(PAL), C("a", consts[0])))
    if not any(h[1] == "b" for _, h in pf):
        pf.append((rng.choice(PAL), C("b", consts[-1])))
    for c in consts:
        det.append((C("dom", c), None))
    shapes = [
        (C("g", V("X")), C("a", V("X"))),
        (C("g", V("X")), C(",", C("dom", V("X")), C("\\+", C("b", V("X"))))),
        (C("h", V("X"), V("Y")), C(",", C("a", V("X")), C("b", V("Y")))),
        (C("k", V("X")), C(",", C("a", V("X")), C("b", V("X")))),
        (C("k", V("X")), C(",", C("dom", V("X")), C("\\+", C("a", V("X"))))),
        (C("m", V("C")), C("col", V("C"))),
    ]
    if not ads:
        shapes = shapes[:-1]
    for sh in rng.sample(shapes, rng.randint(2, len(shapes))):
        if rng.random() < 0.2:
            prules.append((rng.choice(PAL), sh[0], sh[1]))
        else:
            det.append(sh)
    goals = {"g": C("g", V("X")), "h": C("h", V("X"), V("Y")), "k": C("k", V("X")), "a": C("a", V("X")), "m": C("m", V("X")),
             "ab": C(",", C("a", V("X")), C("\\+", C("b", V("X")))), "ga": C(";", C("a", V("X")), C("b", V("X"))),
             "ng": C(",", C("dom", V("X")), C("\\+", C("g", V("X")))), "nk": C(",", C("dom", V("X")), C("\\+", C("k", V("X")))),
             "nh": C(",", C("dom", V("X")), C("\\+", C("h", V("X"), V("X"))))}
    defined = {h[1] for h, _ in det} | {h[1] for _, h, _ in prules} | {"a", "b"} | ({"col"} if ads else set())
    wr = []
    names = [n for n in goals if all(f in defined for f in _functors(goals[n]))]
    for j, n in enumerate(rng.sample(names, min(len(names), rng.randint(1, 3)))):
        templ = V("X") if "h" != n else C("-", V("X"), V("Y"))
        kind = rng.choice(["findall", "findall", "all"])
        wr.append((C("q%d" % j, V("L")), C(kind, templ, goals[n], V("L"))))
        if rng.random() < 0.3:
            wr.append((C("n%d" % j, V("N")), C(",", C(kind, templ, goals[n], V("L")), C("length", V("L"), V("N")))))
    return dict(pf=pf, ads=ads, det=det, prules=prules, wr=wr, consts=consts)


def _functors(g):
    out = []
    if g[0] == "c":
        if g[1] in (",", ";", "\\+"):
            for a in g[2]:
                out += _functors(a)
        else:
            out.append(g[1])
    return out


def gtxt(g):
    if g[0] == "c" and g[1] in (",", ";") and len(g[2]) == 2:
        return "(%s %s %s)" % (gtxt(g[2][0]), g[1], gtxt(g[2][1]))
    if g[0] == "c" and g[1] == "\\+":
        return "\\+ %s" % gtxt(g[2][0])
    if g[0] == "c" and g[1] == "-" and len(g[2]) == 2:
        return "(%s-%s)" % (gtxt(g[2][0]), gtxt(g[2][1]))
    if g[0] == "c":
        return "%s(%s)" % (g[1], ",".join(gtxt(a) for a in g[2]))
    return T.txt(g)


def program_text(case):
    lines = []
    for p, h in case["pf"]:
        lines.append("%s::%s." % (p, gtxt(h)))
    for ad in case["ads"]:
        lines.append("; ".join("%s::%s" % (p, gtxt(h)) for p, h in ad) + ".")
    for h, b in case["det"]:
        lines.append(gtxt(h) + ("." if b is None else " :- %s." % gtxt(b)))
    for p, h, b in case["prules"]:
        lines.append("%s::%s :- %s." % (p, gtxt(h), gtxt(b)))
    for h, b in case["wr"]:
        lines.append("%s :- %s." % (gtxt(h), gtxt(b)))
        lines.append("query(%s)." % gtxt(C(h[1], V("_"))).replace("(_)", "(_)"))
    return "\n".join(lines) + "\n"


def reference(case):
    """{answer text: Fraction} for every wrapper query, None if too big"""
    consts = [T.tup(c) for c in case["consts"]]
    choices = []     # list of options: each option = (prob Fraction, [clauses added])
    for p, h in case["pf"]:
        choices.append([(1 - F(p), []), (F(p), [(T.tup(h), ("a", "true"))])])
    for ad in case["ads"]:
        opts = [(1 - sum(F(p) for p, _ in ad), [])]
        for p, h in ad:
            opts.append((F(p), [(T.tup(h), ("a", "true"))]))
        choices.append(opts)
    # probabilistic rules: one choice per grounding of the clause variables
    for p, h, b in case["prules"]:
        vs = T.variables(["c", "x", [h, b]])
        dom = consts + ([("a", "r"), ("a", "g")] if case["ads"] else [])
        for vals in itertools.product(dom, repeat=len(vs)):
            th = dict(zip(vs, vals))
            hh, bb = _inst(T.tup(h), th), _inst(T.tup(b), th)
            choices.append([(1 - F(p), []), (F(p), [(hh, bb)])])
    nw = 1
    for c in choices:
        nw *= len(c)
    if nw > 2048:
        return None, nw
    base = [(T.tup(h), T.tup(b) if b is not None else ("a", "true")) for h, b in case["det"]]
    # every predicate that has a probabilistic clause is defined in every world (possibly with no true instance)
    for h in [h for _, h in case["pf"]] + [h for ad in case["ads"] for _, h in ad] + [h for _, h, _ in case["prules"]]:
        th = T.tup(h)
        base.append((("c", th[1], tuple(("a", "$undefined") for _ in th[2])), ("a", "fail")))
    wrs = [(T.tup(h), T.tup(b)) for h, b in case["wr"]]
    lib = sld.lists_lib() + [(("c", "length", (("a", "[]"), ("i", 0))), ("a", "true"))]
    out = {}
    for combo in itertools.product(*choices):
        w = F(1)
        cl = list(base)
        for pr, add in combo:
            w *= pr
            cl += add
        if w == 0:
            continue
        for h, b in wrs:
            goal = ("c", h[1], (("v", "L"),))
            prog = cl + [(h, _findall_body(b))] + lib
            for ans in sld.answers(prog + _length_clauses(), goal):
                key = _show(ans)
                out[key] = out.get(key, F(0)) + w
                break     # findall / length are deterministic: one answer per world (or none for all/3 on [])
    return out, nw


def _length_clauses():
    V_ = lambda n: ("v", n)
    return [(("c", "length", (("c", ".", (V_("_H"), V_("T"))), V_("N"))),
             ("c", ",", (("c", "length", (V_("T"), V_("M"))), ("c", "is", (V_("N"), ("c", "+", (V_("M"), ("i", 1))))))))]


def _findall_body(b):
    """all(T,G,L) == findall(T,G,L), L \\= []"""
    if b[0] == "c" and b[1] == "all":
        return ("c", ",", (("c", "findall", b[2]), ("c", "\\=", (b[2][2], ("a", "[]")))))
    if b[0] == "c" and b[1] == ",":
        return ("c", ",", (_findall_body(b[2][0]), _findall_body(b[2][1])))
    return b


def _inst(t, th):
    if t[0] == "v":
        return th.get(t[1], t)
    if t[0] == "c":
        return ("c", t[1], tuple(_inst(a, th) for a in t[2]))
    return t


def _show(t):
    if t[0] == "c" and t[1] == "." and len(t[2]) == 2:
        items = []
        while t[0] == "c" and t[1] == "." and len(t[2]) == 2:
            items.append(_show(t[2][0]))
            t = t[2][1]
        return "[%s]" % ",".join(items)
    if t[0] == "c" and t[1] == "-" and len(t[2]) == 2:
        return "%s-%s" % (_show(t[2][0]), _show(t[2][1]))
    if t[0] == "c":
        return "%s(%s)" % (t[1], ",".join(_show(a) for a in t[2]))
    return str(t[1])


def run_case(case):
    from problog.logic import Term
    text = program_text(case)
    ref, nw = reference(case)
    if ref is None:
        return skip("too many worlds (%d)" % nw)
    o = sut.evaluate_text(text)
    if o["kind"] != "ok":
        return viol("error:%s" % o["sig"], "problog raised %s\n%s" % (sut.describe(o), text), sample=text)
    got = {}
    for name, v in o["result"].items():
        if not sut.is_ground_name(name):
            if abs(v) > 1e-9:
                return viol("nonground-nonzero", "%s reported with %r\n%s" % (name, v, text), sample=text)
            continue
        try:
            key = _show(T.tup(T.from_pl(Term.from_string(name))))
        except Exception:  # noqa
            key = name.replace(" ", "")
        got[key] = got.get(key, 0.0) + v
    vs = []

    def bagkey(k):
        if "[" not in k or not k.endswith("])"):
            return k
        inner = k[k.index("[") + 1:-2]
        return k[:k.index("[")] + "{" + ",".join(sorted(sut._split_top(inner))) + "}"

    def has_dup(k):
        if "[" not in k or not k.endswith("])"):
            return False
        items = sut._split_top(k[k.index("[") + 1:-2])
        return len(set(items)) != len(items)
    dup = any(has_dup(k) for k in ref)
    tag = "|duplicate-solutions" if dup else ""
    gb, rb = {}, {}
    for k, v in got.items():
        gb[bagkey(k)] = gb.get(bagkey(k), 0.0) + v
    for k, p in ref.items():
        rb[bagkey(k)] = rb.get(bagkey(k), 0.0) + float(p)
    for k in sorted(set(gb) | set(rb)):
        if abs(gb.get(k, 0.0) - rb.get(k, 0.0)) > 1e-9:
            # known mechanism: identical solutions are merged (set instead of bag).  Only if the numbers agree after
            # de-duplicating the reference's solutions is the difference attributed to it.
            def setkey(b):
                if "{" not in b:
                    return b
                return b[:b.index("{")] + "{" + ",".join(sorted(set(sut._split_top(b[b.index("{") + 1:-1])))) + "}"
            gs, rs = {}, {}
            for b, v in gb.items():
                gs[setkey(b)] = gs.get(setkey(b), 0.0) + v
            for b, v in rb.items():
                rs[setkey(b)] = rs.get(setkey(b), 0.0) + v
            merged_only = all(abs(gs.get(b, 0.0) - rs.get(b, 0.0)) <= 1e-9 for b in set(gs) | set(rs) if "{" in b)
            lengths_only = all(abs(gb.get(b, 0.0) - rb.get(b, 0.0)) <= 1e-9 for b in set(gb) | set(rb) if "{" in b)
            known_dup = dup and merged_only
            if "{" not in k and not lengths_only:
                continue      # report the list-level difference instead of the derived length
            vs.append(("findall:probability" + ("|duplicate-solutions" if known_dup else ""),
                       "solutions %s: problog %.10g, possible-world semantics %.10g (reported: %s)\n%s" % (
                k, gb.get(k, 0.0), rb.get(k, 0.0), {g: round(v, 6) for g, v in sorted(got.items())}, text)))
            break
    if not vs:
        for k, p in ref.items():
            if abs(got.get(k, 0.0) - float(p)) > 1e-9:
                vs.append(("findall:list-order" + tag, "%s: problog %.10g, possible-world semantics %.10g: the same solutions are reported in "
                           "a different element order (reported: %s)\n%s" % (k, got.get(k, 0.0), float(p),
                                                                             {g: round(v, 6) for g, v in sorted(got.items())}, text)))
                break
    COUNTERS["lists_compared"] += len(ref)
    COUNTERS["worlds_enumerated"] += nw
    if vs:
        return viol(vs[0][0], vs[0][1], sample=text, n=len(ref))
    return ok(nontrivial=nw >= 4 and len(ref) >= 2, sample=text, n=max(1, len(ref)))


def floors(agg):
    c = agg["counters"]
    return ["monitor %s is zero" % k for k in ("lists_compared", "reach:engine_builtin:_select_sublist", "reach:engine_builtin:_builtin_all")
            if not c.get(k)]
