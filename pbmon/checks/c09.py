"""C09 Cycle breaking and Clark's completion preserve the ground program's meaning (translation validation)."""
from ..core import ok, viol, skip, inc, COUNTERS
from ..gen import prog as G
from .. import sut, instrument, tv

ID = "C09"
LEVEL = "translation_validation"
RULE = ("case = generated program (cyclic-heavy: mutual recursion, graph reachability, ADs, negation, evidence, with and without "
        "evidence propagation) run through the real pipeline; every (LogicFormula -> LogicDAG) and (LogicDAG -> CNF) instance is "
        "captured at the transformation registry and validated exhaustively over all atom assignments by truth tables; "
        "non-trivial = the source formula has a cycle (break_cycles) or a compound node (Clark); distinct by program text")
ASSUMPTIONS = ["ground formulas with <= 14 (quick) / 18 (thorough) atoms are validated, larger ones are skipped and counted",
               "under evidence propagation query nodes are compared on the assignments consistent with the evidence (the transformation "
               "substitutes evidence-determined nodes by constants by design); evidence nodes are compared on all assignments",
               "'exactly one model extending every atom assignment' is checked for the definitional clauses; AD constraint clauses must "
               "equal Constraint.as_clauses() of the carried constraints"]
LEVEL_TEXT = ("Every cycle-breaking and Clark-completion instance the workload produces is checked against the least-fixpoint "
              "semantics of its own input by exhaustive truth tables (all atom assignments): per-instance translation validation of "
              "the real transformation outputs, not of a model of them.")
LEVEL_NOTE = "Trusts pbmon/ref/boolfn.py (big-int truth tables, Tarjan SCC least fixpoint) and pbmon/tv.py; instances above the atom bound are skipped."
TECHNIQUE = "runtime translation validation of captured transformation instances (truth-table oracle over all atom assignments)"
BUDGET = {"quick": 1500, "thorough": 16000}
TIME_BUDGET = {"quick": 200, "thorough": 3000}
CASE_TIMEOUT = 20
WATCHDOG_FRACTION = 0.04

_cap = []


def setup_worker(tier):
    instrument.wrap_transformations(lambda name, src, res, kw: _cap.append((name, src, res)))
    instrument.reach_install({"cycles.py": ["_break_cycles"], "cnf_formula.py": ["clarks_completion"]})


def gen_case(rng, i, tier):
    mode = rng.choice(["mixed", "mixed", "prop", "prop", "graph", "graph"])
    p = G.gen(rng, stratified=True, mode=mode)
    return dict(prog=p, pe=bool(i % 2), tier=tier)


def run_case(case):
    del _cap[:]
    prog = case["prog"]
    text = G.to_text(prog)
    F = G.features(prog)
    o = sut.evaluate_text(text, backend="ddnnf", propagate_evidence=case["pe"])
    max_atoms = 14 if case.get("tier") != "thorough" else 18
    feats = ["pe" if case["pe"] else "nope", "sut_" + o["kind"]]
    n = 0
    nt = False
    for name, src, res in list(_cap):
        if name == "break_cycles":
            r = tv.validate_break_cycles(src, res, max_atoms)
            tag = "bc"
        elif name == "clarks_completion":
            r = tv.validate_clark(src, res, max_atoms)
            tag = "clark"
        else:
            continue
        if r[0] == "skip":
            COUNTERS["%s_skipped" % tag] += 1
            continue
        if r[0] == "viol":
            COUNTERS["disagreements_checked"] += 1
            return viol(r[1], r[2] + "\n" + text, feat=feats, sample=text)
        n += 1
        COUNTERS["%s_validated" % tag] += 1
        if tag == "bc":
            COUNTERS["bc_labels_compared"] += r[1]
            if r[2]:
                COUNTERS["bc_cyclic_sources"] += 1
                nt = True
        else:
            COUNTERS["clark_nodes_checked"] += r[1]
            COUNTERS["clark_bruteforce_assignments"] += r[2]
            if r[1]:
                nt = True
    del _cap[:]
    if n == 0:
        return skip("no instance validated (%s)" % o["kind"], feats)
    COUNTERS["tv_programs"] += 1
    return ok(nontrivial=nt, feat=feats, sample=text, n=n)


def floors(agg):
    c = agg["counters"]
    out = []
    for k in ("bc_validated", "clark_validated", "bc_cyclic_sources", "clark_bruteforce_assignments"):
        if not c.get(k):
            out.append("monitor %s is zero" % k)
    return out
