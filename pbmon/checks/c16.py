"""C16 Arithmetic and term-inspection builtins match Yap/SWI semantics."""
import itertools
import math

from ..core import ok, viol, COUNTERS
from ..gen import terms as T
from ..ref import arith
from .. import sut

ID = "C16"
LEVEL = "exploration"
RULE = ("case = batch of (a) every documented arithmetic function/operator x bounded-exhaustive small ints (-7..7, 10, 33, 100) and "
        "selected floats through `X is E` and the six comparisons, (b) random expression trees of depth <= 3, (c) every supported call "
        "mode of between/3, succ/2, plus/3, length/2, functor/3, arg/3, =../2, atom_number/2 and the type tests on all term classes; "
        "answers (value AND numeric type, solution lists, success/failure) are compared with a reference table restricted to the "
        "semantics on which ISO, SWI-Prolog and YAP agree; errors must be ProbLogError subclasses; non-trivial = batch containing a "
        "negative or float operand; distinct by batch content")
ASSUMPTIONS = ["no SWI/YAP binary exists in the sandbox: contested cases (int/int '/' exactness, ** on ints, integer/1 of fractional floats, "
               "rounding of negative ties, rem) are skipped, not guessed", "floats are compared with 1e-12 relative tolerance", "double-quoted strings are not used in type tests (string vs code-list reading differs between systems)"]
LEVEL_TEXT = ("Bounded-exhaustive operand grids and all supported call modes are executed by the real engine in one process (so value "
              "caches would be exercised too) and compared with an independent table of the agreed Prolog semantics.")
LEVEL_NOTE = "Trusts pbmon/ref/arith.py and the direct definitions of the term-inspection predicates in this file."
TECHNIQUE = "runtime reference-model monitor (agreed-subset arithmetic table + direct predicate definitions) over bounded-exhaustive inputs"
BUDGET = {"quick": 900, "thorough": 20000}
TIME_BUDGET = {"quick": 200, "thorough": 3000}
CASE_TIMEOUT = 90

INTS = list(range(-7, 8)) + [10, 33, 100]
FLOATS = [0.5, -0.5, 2.5, -2.5, 1.0, 2.0, 3.5, 0.0, -1.5, 7.25]
BIN = ["+", "-", "*", "/", "//", "mod", "div", "rem", "/\\", "\\/", "xor", "#", "><", "<<", ">>", "min", "max", "**", "^", "atan2", "atan"]
CMP = ["<", "=<", ">", ">=", "=:=", "=\\="]
UN = ["+", "-", "\\", "abs", "sign", "float", "integer", "truncate", "ceiling", "floor", "round", "float_integer_part",
      "float_fractional_part", "sqrt", "log", "log10", "exp", "sin", "cos", "tan", "asin", "acos", "atan", "sinh", "cosh", "tanh",
      "asinh", "acosh", "atanh", "lgamma", "erf", "erfc"]
PREFIX_OPS = {"min", "max", "atan2", "atan"}
NUMS = [("i", v) for v in INTS] + [("f", v) for v in FLOATS]

_GRID = None


def grid():
    global _GRID
    if _GRID is None:
        g = []
        small = [("i", v) for v in (-7, -3, -2, -1, 0, 1, 2, 3, 7, 10)] + [("f", v) for v in (0.5, -0.5, 2.5, -2.5, 2.0, 0.0)]
        for op in BIN + CMP:
            for a, b in itertools.product(small, repeat=2):
                g.append(("bin", op, [a, b]))
        for op in UN:
            for a in NUMS:
                g.append(("un", op, [a]))
        for op in ("pi", "e", "epsilon", "inf"):
            g.append(("nul", op, []))
        _GRID = g
    return _GRID


PER_CASE = 60


def gen_case(rng, i, tier):
    g = grid()
    ngrid = (len(g) + PER_CASE - 1) // PER_CASE
    if i < ngrid:
        return dict(mode="grid", items=[[k, op, [list(a) for a in args]] for k, op, args in g[i::ngrid]])
    r = i % 3
    if r == 0:
        items = []
        for _ in range(PER_CASE):
            op = rng.choice(BIN + CMP)
            items.append(["bin", op, [list(rng.choice(NUMS)), list(rng.choice(NUMS))]])
        return dict(mode="rnd", items=items)
    if r == 1:
        return dict(mode="expr", exprs=[rand_expr(rng, 3) for _ in range(30)])
    return dict(mode="inspect", seed=rng.randrange(1 << 30))


def rand_expr(rng, d):
    if d == 0 or rng.random() < 0.3:
        return list(rng.choice(NUMS))
    if rng.random() < 0.7:
        return ["b", rng.choice(["+", "-", "*", "//", "mod", "div", "min", "max", "/\\", "\\/", "xor", "<<"]), rand_expr(rng, d - 1), rand_expr(rng, d - 1)]
    return ["u", rng.choice(["-", "abs", "sign", "truncate", "ceiling", "floor", "round", "float", "\\"]), rand_expr(rng, d - 1)]


def num_txt(n):
    k, v = n
    if k == "i":
        return str(v) if v >= 0 else "(%d)" % v
    s = repr(float(v))
    return s if v >= 0 and not s.startswith("-") else "(%s)" % s


def expr_txt(e):
    if e[0] in ("i", "f"):
        return num_txt(e)
    if e[0] == "b":
        if e[1] in PREFIX_OPS:
            return "%s(%s,%s)" % (e[1], expr_txt(e[2]), expr_txt(e[3]))
        return "(%s %s %s)" % (expr_txt(e[2]), e[1], expr_txt(e[3]))
    if e[1] in ("-", "+", "\\"):
        return "%s(%s)" % (e[1], expr_txt(e[2]))
    return "%s(%s)" % (e[1], expr_txt(e[2]))


def expr_ref(e):
    """-> ('val', v) strict-typed, ('err',), ('skip',)"""
    if e[0] in ("i", "f"):
        return ("val", e[1])
    subs = [expr_ref(x) for x in e[2:]]
    if any(s[0] == "skip" for s in subs):
        return ("skip",)
    if any(s[0] == "err" for s in subs):
        return ("err",)
    r = arith.eval_ref(e[1], [s[1] for s in subs])
    if r[0] == "val":
        if not r[2]:
            return ("skip",)
        if isinstance(r[1], int) and abs(r[1]) > 10 ** 15:
            return ("skip",)
        return ("val", r[1])
    return (r[0],)


def first_err(e):
    """operator and operand kinds of the innermost sub-expression whose evaluation is an error in the reference"""
    if e[0] in ("i", "f"):
        return "?"
    for sub in e[2:]:
        if expr_ref(sub)[0] == "err":
            return first_err(sub)
    vals = [expr_ref(sub)[1] for sub in e[2:]]
    return "%s/%d:%s" % (e[1], len(vals), "-".join("i" if isinstance(v, int) else "f" for v in vals))


def same_num(got, exp, strict=True):
    if isinstance(exp, bool):
        return got == exp
    if strict and (isinstance(got, int) != isinstance(exp, int)):
        return False
    if isinstance(exp, float) and (math.isinf(exp) or math.isnan(exp)):
        return isinstance(got, float) and (got == exp or (math.isnan(got) and math.isnan(exp)))
    if isinstance(got, float) and (math.isinf(got) or math.isnan(got)):
        return False
    return got == exp or abs(got - exp) <= 1e-12 * max(1.0, abs(got), abs(exp))


def check_items(items):
    goals, meta = [], []
    for kind, op, args in items:
        vals = [a[1] for a in args]
        ref = arith.eval_ref(op, vals)
        if ref[0] == "skip":
            COUNTERS["skipped_contested"] += 1
            continue
        if op in CMP:
            src = "%s %s %s" % (num_txt(args[0]), op, num_txt(args[1]))
            goals.append("%s, R1 = y" % src)
        else:
            e = ["b", op, args[0], args[1]] if kind == "bin" else (["u", op, args[0]] if kind == "un" else None)
            src = expr_txt(e) if e else op
            goals.append("R1 is %s" % src)
        meta.append((op, src, ref, [a[0] for a in args]))
    res = sut.run_goals(goals)
    n = 0
    vs = []
    for (op, src, ref, kinds), r in zip(meta, res):
        n += 1
        klass = "%s/%d:%s" % (op, len(kinds), "-".join(kinds))
        v = judge_arith(op, src, ref, r, klass)
        if v is not None:
            vs.append(v)
    return n, vs


def judge_arith(op, src, ref, r, klass):
    if isinstance(r, dict):
        if r["kind"] == "crash":
            return ("arith:%s:crash:%s" % (klass, r["exc"]), "%s raised %s (errors must be ProbLog errors)" % (src, sut.describe(r)))
        if ref[0] == "err":
            return None
        return ("arith:%s:unexpected-error" % klass, "%s raised %s but Prolog gives %r" % (src, sut.describe(r), ref[1]))
    if ref[0] == "err":
        return ("arith:%s:missing-error" % klass, "%s should raise an evaluation/type error but gave %s" % (src, [str(x[0]) for x in r]))
    if op in CMP:
        got = len(r) > 0
        if got != ref[1]:
            return ("arith:%s:comparison" % klass, "%s %s, Prolog says it %s" % (src, "succeeds" if got else "fails", "succeeds" if ref[1] else "fails"))
        return None
    if len(r) != 1:
        return ("arith:%s:answers" % klass, "%s gave %d answers" % (src, len(r)))
    try:
        g = T.from_pl(r[0][0])
    except ValueError:
        g = ["?", None]
    if g[0] not in ("i", "f"):
        return ("arith:%s:non-number" % klass, "X is %s gave %s" % (src, str(r[0][0])))
    if not same_num(g[1], ref[1], strict=ref[2]):
        what = "value" if not same_num(g[1], ref[1], strict=False) else "type"
        return ("arith:%s:%s" % (klass, what), "X is %s gave %r, Prolog gives %r" % (src, g[1], ref[1]))
    return None


def check_exprs(exprs):
    goals, meta = [], []
    for e in exprs:
        ref = expr_ref(e)
        if ref[0] == "skip":
            continue
        goals.append("R1 is %s" % expr_txt(e))
        meta.append((expr_txt(e), ref, e))
    res = sut.run_goals(goals)
    n = 0
    vs = []
    for (src, ref, e), r in zip(meta, res):
        n += 1
        ref3 = ("val", ref[1], True) if ref[0] == "val" else ref
        klass = "expr"
        if ref[0] == "err":
            klass = "expr:" + first_err(e)
        v = judge_arith("expr", src, ref3, r, klass)
        if v is not None:
            vs.append(v)
    return n, vs


# ---------------------------------------------------------------- term inspection
def inspect_goals(rng):
    """list of (goal text, expected list of canonical answer tuples | 'error-or-fail' | 'error', outs)"""
    G = []
    lo, hi = rng.randint(-3, 3), rng.randint(-3, 6)
    G.append(("between(%d,%d,R1)" % (lo, hi), [[["i", v]] for v in range(lo, hi + 1)]))
    x = rng.randint(-4, 7)
    G.append(("between(%d,%d,%d), R1 = y" % (lo, hi, x), [[["a", "y"]]] if lo <= x <= hi else []))
    n = rng.randint(0, 6)
    G.append(("succ(%d,R1)" % n, [[["i", n + 1]]]))
    G.append(("succ(R1,%d)" % (n + 1), [[["i", n]]]))
    G.append(("succ(R1,0)", "fail-or-error"))
    G.append(("succ(%d,%d), R1 = y" % (n, n + 1), [[["a", "y"]]]))
    G.append(("succ(%d,%d), R1 = y" % (n, n + 2), []))
    a, b = rng.randint(-5, 5), rng.randint(-5, 5)
    G.append(("plus(%d,%d,R1)" % (a, b), [[["i", a + b]]]))
    G.append(("plus(%d,R1,%d)" % (a, b), [[["i", b - a]]]))
    G.append(("plus(R1,%d,%d)" % (a, b), [[["i", b - a]]]))
    lst = [T.rand_term(rng, 1, ground=True, small=True) for _ in range(rng.randint(0, 4))]
    ltxt = T.txt(["l", lst, None]) if lst else "[]"
    G.append(("length(%s,R1)" % ltxt, [[["i", len(lst)]]]))
    G.append(("length(%s,%d), R1 = y" % (ltxt, len(lst)), [[["a", "y"]]]))
    G.append(("length(%s,%d), R1 = y" % (ltxt, len(lst) + 1), []))
    k = rng.randint(0, 3)
    G.append(("length(R1,%d)" % k, [[["l", [["v", "_"] for _ in range(k)], None] if k else ["a", "[]"]]]))
    G.append(("length(L,%d), L = %s, R1 = L" % (k, T.txt(["l", [["i", j] for j in range(k)], None]) if k else "[]"),
              [[["l", [["i", j] for j in range(k)], None] if k else ["a", "[]"]]]))
    t = T.rand_term(rng, 2, ground=True, small=True)
    tn = T.norm(t)
    name, ar = (tn[1], len(tn[2])) if tn[0] == "c" else (None, 0)
    if tn[0] == "c":
        G.append(("functor(%s,R1,R2)" % T.txt(t), [[["a", name], ["i", ar]]]))
        j = rng.randint(1, ar)
        G.append(("arg(%d,%s,R1)" % (j, T.txt(t)), [[tn[2][j - 1]]]))
        G.append(("arg(%d,%s,R1)" % (ar + 1, T.txt(t)), []))
        G.append(("%s =.. R1" % T.txt(t), [[T.norm(["l", [["a", name]] + tn[2], None])]]))
        G.append(("R1 =.. %s" % T.txt(["l", [["a", name]] + tn[2], None]), [[tn]]))
        G.append(("functor(R1,%s,%d)" % (T.atom_txt(name), ar), [[["c", name, [["v", "_"] for _ in range(ar)]]]]))
        args = [["i", 10 + q] for q in range(ar)]
        G.append(("functor(X,%s,%d), X = %s, R1 = X" % (T.atom_txt(name), ar, T.txt(["c", name, args])), [[["c", name, args]]]))
    else:
        G.append(("functor(%s,R1,R2)" % T.txt(t), [[tn, ["i", 0]]]))
        G.append(("%s =.. R1" % T.txt(t), [[T.norm(["l", [tn], None])]]))
    num = rng.choice([12, 0, 7, 3.5, 100])
    G.append(("atom_number('%s',R1)" % num, [[["i", num] if isinstance(num, int) else ["f", num]]]))
    G.append(("atom_number(R1,%s)" % num, [[["a", str(num)]]]))
    G.append(("atom_number(abc,R1)", []))
    # type tests
    probes = [("i", ["i", 3]), ("i", ["i", -2]), ("f", ["f", 2.5]), ("a", ["a", "foo"]), ("a", ["a", "hello world"]), ("a", ["a", "[]"]),
              ("c", ["c", "f", [["i", 1]]]), ("l", ["l", [["i", 1], ["a", "b"]], None]), ("v", ["v", "X"]),
              ("pl", ["l", [["i", 1]], ["v", "T"]]), ("cv", ["c", "g", [["v", "X"], ["i", 1]]])]
    truth = {"var": {"v"}, "nonvar": {"i", "f", "a", "c", "l", "pl", "cv"}, "atom": {"a"}, "atomic": {"i", "f", "a"},
             "number": {"i", "f"}, "integer": {"i"}, "float": {"f"}, "compound": {"c", "l", "pl", "cv"}, "callable": {"a", "c", "l", "pl", "cv"},
             "is_list": {"l"} | {"a[]"}, "ground": {"i", "f", "a", "c", "l"}}
    for pred, yes in sorted(truth.items()):
        k, term = rng.choice(probes)
        key = "a[]" if (k == "a" and term[1] == "[]") else k
        exp = (k in yes) or (key in yes)
        G.append(("%s(%s), R1 = y" % (pred, T.txt(term)), [[["a", "y"]]] if exp else [], "partial-list" if k == "pl" else ""))
    return G


def check_inspect(seed):
    import random
    rng = random.Random(seed)
    n = 0
    vs = []
    for _ in range(3):
        G = inspect_goals(rng)
        res = sut.run_goals([g[0] for g in G], outs=2)
        for item, r in zip(G, res):
            goal, exp = item[0], item[1]
            tag = ("|" + item[2]) if len(item) > 2 and item[2] else ""
            n += 1
            pred = goal.split("(")[0].strip() if "=.." not in goal else "=.."
            if goal.startswith(("functor(X", "length(L")):
                pred += ":construct-then-unify"
            if isinstance(r, dict):
                if r["kind"] == "crash":
                    vs.append(("inspect:%s:crash:%s" % (pred, r["exc"]), "%s raised %s" % (goal, sut.describe(r))))
                elif exp != "fail-or-error":
                    vs.append(("inspect:%s:unexpected-error" % pred, "%s raised %s, Prolog answers %s" % (goal, sut.describe(r), exp)))
                continue
            if exp == "fail-or-error":
                if r:
                    vs.append(("inspect:%s:should-fail" % pred, "%s answered %s; Prolog fails (or raises)" % (goal, [str(x[0]) for x in r])))
                continue
            try:
                got = [T.canon_vars(["c", "t", [T.from_pl(x) for x in row[:len(exp[0]) if exp else 1]]], {}) for row in r]
            except ValueError as e:
                vs.append(("inspect:%s:unreadable" % pred, "%s: %s" % (goal, e)))
                continue
            want = [T.canon_vars(["c", "t", row], {}) for row in exp]
            if got != want:
                vs.append(("inspect:%s:answers%s" % (pred, tag), "%s answered %s; Prolog answers %s" % (
                    goal, [[str(c) for c in row[:2]] for row in r], [[T.txt(T_denorm(c)) for c in row] for row in exp])))
    return n, vs


def T_denorm(t):
    return t


def run_case(case):
    if case["mode"] in ("grid", "rnd"):
        n, v = check_items([(k, op, [tuple(a) for a in args]) for k, op, args in case["items"]])
        nt = any(a[1] < 0 or a[0] == "f" for _, _, args in case["items"] for a in args)
        sample = [[op] + [a[1] for a in args] for _, op, args in case["items"][:4]]
    elif case["mode"] == "expr":
        n, v = check_exprs(case["exprs"])
        nt = True
        sample = [expr_txt(e) for e in case["exprs"][:3]]
    else:
        n, v = check_inspect(case["seed"])
        nt = True
        sample = "inspection goals seed %d" % case["seed"]
    COUNTERS["evaluations_" + case["mode"]] += n
    if v:
        return viol(v[0][0], v[0][1], nontrivial=nt, feat=[case["mode"]], sample=sample, n=max(1, n), extra_viols=[list(x) for x in v[1:]])
    return ok(nontrivial=nt, feat=[case["mode"]], sample=sample, n=max(1, n))


def floors(agg):
    c = agg["counters"]
    return ["no %s evaluations" % k for k in ("evaluations_grid", "evaluations_expr", "evaluations_inspect") if not c.get(k)]
