"""C17 The parser is total and printing round-trips."""
import os
import re

from ..core import ok, viol, COUNTERS, short_exc, frame_sig
from ..gen import terms as T
from ..gen import prog as G

ID = "C17"
LEVEL = "exploration"
RULE = ("case = (totality) batch of token-level mutations (delete/duplicate/swap/replace tokens, unbalanced brackets, stray quotes, "
        "operators in odd positions, truncation) of the corpus files in /repo/test and of generated programs, each parsed with the "
        "real parser: outcome must be a clause list or a ParseError/GroundingError subclass; (round trip) batch of terms and clauses "
        "built with the public constructors over the operator table (arithmetic, comparison, control operators, prefix - + \\ \\+, "
        "negative numbers, quoted atoms, strings, lists with tails, probabilities, annotated disjunctions), printed with str() and "
        "re-parsed: the result must be == in both directions AND structurally identical under an independent comparison; "
        "non-trivial = mutated text that still contains >= 3 tokens / term with >= 1 operator; distinct by text")
ASSUMPTIONS = ["texts are capped at 4 kB and nesting depth 50 (resource exhaustion is out of scope)",
               "the independent structural comparison identifies \\+ and not (both are negation) and ignores source locations"]
LEVEL_TEXT = ("Tens of thousands of mutated texts and constructor-built terms per run go through the real tokenizer/parser/printer; every "
              "non-ProbLog exception is keyed by (class, innermost repository frame) so a new crash site is a violation even when old "
              "ones are listed.")
LEVEL_NOTE = "Round-trip equality uses Term.__eq__ in both directions plus a structural comparison that does not rely on it (so a C18 defect cannot mask or fake a C17 result)."
TECHNIQUE = "runtime fuzzing monitor (token mutation) + print/parse round-trip oracle with independent structural comparison"
BUDGET = {"quick": 6000, "thorough": 150000}
TIME_BUDGET = {"quick": 200, "thorough": 3000}
CASE_TIMEOUT = 60

_S = {}
TOKEN = re.compile(r"\s+|%[^\n]*|\d+\.\d+(?:[eE][-+]?\d+)?|\d+|[A-Za-z_][A-Za-z0-9_]*|'(?:[^'\\]|\\.)*'|\"(?:[^\"\\]|\\.)*\"|:-|::|\\\+|=\.\.|\\==|@=<|@>=|=:=|=\\=|\\=|==|=<|>=|->|\*\*|//|<<|>>|/\\|\\/|.", re.S)
JUNK = ["(", ")", "[", "]", "{", "}", "'", "\"", ",", ".", ":-", "::", ";", "|", "\\+", "-", "+", "*", "<", "=", "is", "0.3", "X", "_", "a",
        "f(", "[a|", "0'", "0x", "1e", "..", "::-", "\\", "/*", "*/", "%", "not", "{}", "[]", "()", "'\\", "\n"]


def setup_worker(tier):
    corpus = []
    root = os.environ.get("PBMON_REPO", "/repo")
    for d in ("test", os.path.join("test", "parser")):
        p = os.path.join(root, d)
        if os.path.isdir(p):
            for fn in sorted(os.listdir(p)):
                if fn.endswith(".pl"):
                    try:
                        corpus.append(open(os.path.join(p, fn)).read()[:4000])
                    except OSError:
                        pass
    _S["corpus"] = corpus


def gen_case(rng, i, tier):
    if i % 2 == 0:
        return dict(mode="fuzz", seed=rng.randrange(1 << 30), n=25)
    return dict(mode="roundtrip", seed=rng.randrange(1 << 30), n=40)


def mutate(rng, text):
    toks = [t for t in TOKEN.findall(text)]
    if len(toks) > 400:
        a = rng.randrange(len(toks) - 300)
        toks = toks[a:a + rng.randint(20, 300)]
    for _ in range(rng.choice([1, 1, 2, 3, 5])):
        if not toks:
            break
        k = rng.randrange(len(toks))
        op = rng.randrange(7)
        if op == 0:
            del toks[k]
        elif op == 1:
            toks.insert(k, toks[k])
        elif op == 2:
            j = rng.randrange(len(toks))
            toks[k], toks[j] = toks[j], toks[k]
        elif op == 3:
            toks[k] = rng.choice(JUNK)
        elif op == 4:
            toks.insert(k, rng.choice(JUNK))
        elif op == 5:
            toks = toks[:k]
        else:
            toks[k] = toks[k][: max(0, len(toks[k]) - 1)]
    return "".join(toks)[:4000]


def parse_outcome(text):
    from problog.program import PrologString
    from problog.errors import ParseError, GroundingError
    try:
        n = len(list(PrologString(text)))
        return "ok", n
    except (ParseError, GroundingError) as e:
        return "problog", type(e).__name__
    except RecursionError:
        return "recursion", None
    except Exception as e:  # noqa
        return "crash", (frame_sig(e), short_exc(e))


def run_fuzz(case):
    import random
    rng = random.Random(case["seed"])
    vs = []
    n = 0
    for _ in range(case["n"]):
        if rng.random() < 0.75 and _S["corpus"]:
            base = rng.choice(_S["corpus"])
        else:
            base = G.to_text(G.gen(rng, stratified=rng.random() < 0.7), disj=rng.random() < 0.3)
        text = mutate(rng, base)
        kind, info = parse_outcome(text)
        n += 1
        COUNTERS["fuzz_" + kind] += 1
        if kind == "crash":
            vs.append(("parse-crash:" + info[0], "parsing raised %s on text:\n%s" % (info[1], text[:600])))
    return n, vs, True, "mutated corpus/generated texts"


# ---------------------------------------------------------------- round trip
BINOPS = ["+", "-", "*", "/", "//", "mod", "rem", "div", "**", "^", "<<", ">>", "/\\", "\\/", "xor", "=", "\\=", "==", "\\==", "@<", "@=<",
          "@>", "@>=", "<", "=<", ">", ">=", "=:=", "=\\=", "is", "=..", ";", ",", "->", ":"]
UNOPS = ["-", "+", "\\"]


def rand_opterm(rng, d):
    r = rng.random()
    if d <= 0 or r < 0.3:
        k = rng.random()
        if k < 0.25:
            return ["i", rng.choice([0, 1, 2, 10, -1, -3, 33])]
        if k < 0.4:
            return ["f", rng.choice([1.0, 2.5, -0.5, 0.1])]
        if k < 0.55:
            return ["v", rng.choice(["X", "Y", "Zed", "_A"])]
        if k < 0.65:
            return ["s", rng.choice(["str", "two words", ""])]
        return ["a", rng.choice(["a", "b", "foo", "hello world", "B", "[]", "it's", "a_b", "é"])]
    if r < 0.6:
        return ["c", rng.choice(BINOPS), [rand_opterm(rng, d - 1), rand_opterm(rng, d - 1)]]
    if r < 0.7:
        return ["c", rng.choice(UNOPS), [rand_opterm(rng, d - 1)]]
    if r < 0.78:
        return ["neg", rng.choice(["\\+", "not"]), rand_opterm(rng, d - 1)]
    if r < 0.9:
        return ["c", rng.choice(["f", "g", "foo", "p"]), [rand_opterm(rng, d - 1) for _ in range(rng.randint(1, 3))]]
    n = rng.randint(0, 3)
    if n == 0:
        return ["a", "[]"]
    return ["l", [rand_opterm(rng, d - 1) for _ in range(n)], ["v", "T"] if rng.random() < 0.25 else None]


def build(t):
    from problog.logic import Term, Constant, Var, Not, list2term
    k = t[0]
    if k in ("i", "f"):
        return Constant(t[1])
    if k == "s":
        return Constant('"%s"' % t[1])
    if k == "v":
        return Var(t[1])
    if k == "a":
        return Term(T.atom_txt(t[1]))
    if k == "neg":
        return Not(t[1], build(t[2]))
    if k == "c":
        name = t[1] if (t[1] in BINOPS or t[1] in UNOPS) else T.atom_txt(t[1])
        if name in BINOPS and len(t[2]) == 2 or name in UNOPS and len(t[2]) == 1:
            name = "'%s'" % name if not re.match(r"^[a-z]\w*$", name) else name
        return Term(name, *[build(a) for a in t[2]])
    if k == "l":
        if t[2] is None:
            return list2term([build(a) for a in t[1]])
        cur = build(t[2])
        for e in reversed(t[1]):
            cur = Term(".", build(e), cur)
        return cur
    raise ValueError(t)


def struct(o):
    """independent structural image of a problog term (no use of Term.__eq__)"""
    from problog.logic import Term, Constant, Var, Not
    if o is None:
        return ("var", "_")
    if isinstance(o, int) and not isinstance(o, Term):
        return ("var", o)
    if isinstance(o, Var):
        return ("var", str(o.name))
    if isinstance(o, Constant):
        f = o.functor
        if isinstance(f, bool):
            return ("bool", f)
        if isinstance(f, int):
            return ("int", f)
        if isinstance(f, float):
            return ("float", f)
        return ("text", T.unquote(str(f)) if not str(f).startswith('"') else str(f))
    if isinstance(o, Not):
        return ("neg", struct(o.args[0]))
    if isinstance(o, Term):
        name = T.unquote(str(o.functor))
        if name in ("\\+", "not") and o.arity == 1:
            return ("neg", struct(o.args[0]))
        extra = ()
        if o.probability is not None:
            extra = (("p", struct(o.probability)),)
        return ("term", name, tuple(struct(a) for a in o.args)) + extra
    return ("other", repr(o))


def rand_clause(rng):
    from problog.logic import Term, Constant, Var, Clause, AnnotatedDisjunction, And, Or, Not
    def atom():
        return Term(rng.choice(["a", "b", "p", "q"]), *[rng.choice([Constant(1), Constant(-2), Var("X"), Term("c"), Term("'hello world'")])
                                                        for _ in range(rng.randint(0, 2))])
    def lit():
        t = atom()
        return Not("\\+", t) if rng.random() < 0.3 else t

    def conj(n):
        return lit() if n <= 1 else And(lit(), conj(n - 1))

    def body(d=2):
        # the shape the parser itself builds: right-nested disjunction of right-nested conjunctions
        if rng.random() < 0.75:
            return conj(rng.randint(1, 3))
        return Or(conj(rng.randint(1, 2)), conj(rng.randint(1, 2)))
    k = rng.random()
    if k < 0.25:
        return atom().with_probability(Constant(rng.choice([0.3, 0.5, 1.0])))
    if k < 0.5:
        return Clause(atom(), body())
    if k < 0.7:
        return Clause(atom().with_probability(Constant(rng.choice([0.25, 0.9]))), body())
    heads = [atom().with_probability(Constant(p)) for p in rng.choice([(0.3, 0.4), (0.2, 0.2, 0.5)])]
    return AnnotatedDisjunction(heads, body() if rng.random() < 0.7 else Term("true"))


def run_roundtrip(case):
    import random
    from problog.program import PrologString
    from problog.errors import ProbLogError
    rng = random.Random(case["seed"])
    vs = []
    n = 0
    for j in range(case["n"]):
        if j % 4 == 3:
            try:
                obj = rand_clause(rng)
            except Exception as e:  # noqa
                continue
            text = str(obj) + "."
            what = "clause"
            def parse(text=text):
                return list(PrologString(text))[0]
            klass = "clause"
        else:
            t = rand_opterm(rng, 3)
            klass = opclass(t)
            what = "term"
            if "ops" not in klass and "prefix-op" not in klass:
                # operator-free terms: built with the public constructors
                try:
                    obj = build(t)
                except Exception:  # noqa
                    continue
            else:
                # operator terms: obtained the way problog itself builds them (parser factory, fully parenthesised source text),
                # then printed with minimal parentheses by Term.__repr__ and re-parsed
                src = paren_txt(t)
                try:
                    obj = list(PrologString("rt__(%s)." % src))[0].args[0]
                except ProbLogError:
                    COUNTERS["roundtrip_source_rejected"] += 1
                    continue
                except RecursionError:
                    continue
                except Exception as e:  # noqa
                    vs.append(("parse-crash:" + frame_sig(e), "parsing %r raised %s" % (src, short_exc(e))))
                    continue
            text = str(obj)
            def parse(text=text):
                return list(PrologString("rt__((%s))." % text))[0].args[0]
        n += 1
        try:
            back = parse()
        except RecursionError:
            continue
        except ProbLogError as e:
            vs.append(("roundtrip:%s:reparse-error:%s" % (klass, type(e).__name__), "printed %s %r does not re-parse: %s" % (what, text, short_exc(e))))
            continue
        except Exception as e:  # noqa
            vs.append(("roundtrip:%s:reparse-crash:%s" % (klass, frame_sig(e)), "printed %s %r crashes the parser: %s" % (what, text, short_exc(e))))
            continue
        COUNTERS["roundtrips"] += 1
        COUNTERS["rt_class:" + klass] += 1
        s1, s2 = struct(obj), struct(back)
        if s1 != s2:
            vs.append(("roundtrip:%s:different-structure" % klass, "%s printed as %r re-parses as %r (structure %s vs %s)" % (
                what, text, str(back), _short(s1), _short(s2))))
            continue
        try:
            e1, e2 = (obj == back), (back == obj)
        except Exception as e:  # noqa
            vs.append(("roundtrip:%s:eq-raises" % klass, "== raised %s for %r" % (short_exc(e), text)))
            continue
        if not (e1 and e2):
            vs.append(("roundtrip:%s:not-equal" % klass, "%s %r re-parses to a structurally identical term that is not == (%r, %r)" % (what, text, e1, e2)))
    return n, vs, True, "constructor-built terms and clauses"


def paren_txt(t):
    """fully parenthesised source text of an AST term"""
    k = t[0]
    if k == "i":
        return str(t[1]) if t[1] >= 0 else "(%d)" % t[1]
    if k == "f":
        return repr(t[1]) if t[1] >= 0 else "(%r)" % t[1]
    if k in ("a", "s", "v"):
        return T.txt(t)
    if k == "neg":
        return "(%s (%s))" % (t[1], paren_txt(t[2]))
    if k == "c":
        if t[1] in BINOPS and len(t[2]) == 2:
            return "((%s) %s (%s))" % (paren_txt(t[2][0]), t[1], paren_txt(t[2][1]))
        if t[1] in UNOPS and len(t[2]) == 1:
            return "(%s (%s))" % (t[1], paren_txt(t[2][0]))
        return "%s(%s)" % (T.atom_txt(t[1]), ",".join("(%s)" % paren_txt(a) for a in t[2]))
    if k == "l":
        inner = ",".join("(%s)" % paren_txt(a) for a in t[1])
        return "[%s|%s]" % (inner, paren_txt(t[2])) if t[2] is not None else "[%s]" % inner
    raise ValueError(t)


CTRL_OPS = {";", "->", ",", ":"}


def opclass(t):
    """class of a term for signatures: which operator shapes it contains.  'ops' alone (binary operators of priority <= 700
    over non-negative numbers, atoms, variables, compounds, lists) is the clean class."""
    tags = set()

    def go(x):
        if x[0] == "c" and x[1] in BINOPS and len(x[2]) == 2:
            tags.add("ops")
            if x[1] in CTRL_OPS:
                tags.add("ctrl-op")
            if x[1] in ("*", "/", "//", "mod", "rem", "div", "<<", ">>") and x[2][0][0] == "c" and x[2][0][1] in ("^", "**") \
                    and len(x[2][0][2]) == 2:
                tags.add("xfy200-left-of-yfx400")
            for k, a in enumerate(x[2]):
                if a[0] in ("i", "f") and a[1] < 0:
                    tags.add("negative-number-operand")
                go(a)
        elif x[0] == "c" and x[1] in UNOPS and len(x[2]) == 1:
            tags.add("prefix-op")
            go(x[2][0])
        elif x[0] == "c":
            for a in x[2]:
                go(a)
        elif x[0] == "neg":
            tags.add("negation")
            go(x[2])
        elif x[0] == "l":
            for a in x[1]:
                go(a)
            if x[2] is not None:
                go(x[2])
        elif x[0] in ("i", "f") and x[1] < 0:
            tags.add("negative-number")
    go(t)
    return "+".join(sorted(tags)) or "plain"


def _short(s, n=160):
    s = str(s)
    return s if len(s) <= n else s[:n] + "..."


def run_case(case):
    n, vs, nt, sample = (run_fuzz if case["mode"] == "fuzz" else run_roundtrip)(case)
    seen, uniq = set(), []
    for v in vs:
        if v[0] not in seen:
            seen.add(v[0])
            uniq.append(v)
    if uniq:
        return viol(uniq[0][0], uniq[0][1], n=max(1, n), feat=[case["mode"]], extra_viols=[list(x) for x in uniq[1:]], sample=sample)
    return ok(nontrivial=nt, n=max(1, n), feat=[case["mode"]], sample="%s seed %d" % (sample, case["seed"]))


def floors(agg):
    c = agg["counters"]
    return ["monitor %s is zero" % k for k in ("fuzz_ok", "fuzz_problog", "roundtrips") if not c.get(k)]
