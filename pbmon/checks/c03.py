"""C03 Grounding result is independent of the order sibling goals are explored (seeded message-stack permutations)."""
import random

from ..core import ok, viol, skip, COUNTERS
from ..gen import prog as G
from ..ref import worlds
from .. import sut, judge, instrument

ID = "C03"
LEVEL = "exploration"
RULE = ("case = generated program x K seeded schedules: the default buffered engine runs with a MessageFIFO subclass that permutes "
        "every batch of sibling 'e' (evaluation) messages before they are pushed; result dict (1e-9), reported instance set and "
        "error class are compared with the unpermuted run of the same process, which is itself compared with the possible-world "
        "reference; non-trivial = >= 2 distinct schedules (permuted batch-size sequences) were actually executed for the program; "
        "distinct by program text")
ASSUMPTIONS = ["schedules are logical (order of popping sibling evaluation messages), produced from a seed: the engine has no threads",
               "list arguments inside result names are compared as multisets (findall order follows evaluation order)"]
LEVEL_TEXT = ("Each program is grounded under 6 (quick) / 24 (thorough) seeded permutations of every sibling evaluation-message batch; "
              "the monitor logs how many batches were permuted and how many distinct schedules were observed, and any difference "
              "from the unpermuted run is a violation on the clean input class.")
LEVEL_NOTE = ("Instrumentation is a harness-side subclass of MessageFIFO (no repo hook). Known engine crashes (KF-A/KF-B) may appear or "
              "disappear under other orders on the non-clean input class; they are listed findings keyed by call site + input class.")
TECHNIQUE = "runtime schedule perturbation (seeded message-queue shuffling) + differential and reference-model oracles"
BUDGET = {"quick": 700, "thorough": 7000}
TIME_BUDGET = {"quick": 220, "thorough": 3300}
CASE_TIMEOUT = 40
WATCHDOG_FRACTION = 0.04


def setup_worker(tier):
    instrument.reach_install({"eval_nodes.py": ["EvalDefine.closeCycle", "EvalDefine.cycleDetected"],
                              "engine_stack.py": ["MessageFIFO.cycle_exhausted"]})


def gen_case(rng, i, tier):
    p = G.gen(rng, stratified=True)
    return dict(prog=p, k=6 if tier != "thorough" else 24, sseed=rng.randrange(1 << 30), tier=tier, disj=(i % 2 == 1))


def run_case(case):
    from problog.engine import DefaultEngine
    prog = case["prog"]
    F = G.features(prog)
    R = worlds.reference(prog, max_worlds=1 << 10, cyc_preds=G.cyclic_preds(prog))
    if R.status == "too_big":
        return skip("reference too big")
    F = G.refine_with_reference(F, R)
    cls = judge.input_class(F)
    text = G.to_text(prog, disj=case.get("disj", False))
    base = sut.evaluate_text(text, engine=DefaultEngine())
    feats = G.feat_list(F) + ["base_" + base["kind"]]
    v = judge.judge(base, R, F)
    if v is not None:
        return viol("baseline:" + v[0], v[1] + "\n" + text, feat=feats, sample=text)
    scheds = set()
    for k in range(case["k"]):
        log = []
        eng = instrument.make_shuffle_engine(random.Random("%s/%d" % (case["sseed"], k)), log=log)
        o = sut.evaluate_text(text, engine=eng)
        scheds.add(tuple(log))
        COUNTERS["schedules_run"] += 1
        d = sut.same_outcome(base, o, listcanon=True)
        if d is not None:
            if base["kind"] == "ok" and o["kind"] == "ok":
                sig = "sched-diff:%s" % d[0]
            else:
                sig = "sched-diff:%s->%s" % (base.get("sig", base["kind"]), o.get("sig", o["kind"]))
            if cls != "clean":
                sig += "|" + cls
            return viol(sig, "schedule seed %s/%d changes the outcome: %s\n%s" % (case["sseed"], k, d[1], text),
                        nontrivial=True, feat=feats, sample=text)
    COUNTERS["distinct_schedules"] += len(scheds)
    if F["rec"] and len(scheds) >= 2:
        COUNTERS["cyclic_programs_with_2+_schedules"] += 1
    return ok(nontrivial=len(scheds) >= 2, feat=feats + ["schedules>=2" if len(scheds) >= 2 else "schedules<2"], sample=text)


def floors(agg):
    c = agg["counters"]
    out = []
    n = max(1, agg["status"]["ok"])
    if c.get("cyclic_programs_with_2+_schedules", 0) < 0.2 * n:
        out.append("fewer than 20% of programs are cyclic with >= 2 distinct schedules")
    for k in ("sched_batches_permuted", "reach:eval_nodes:EvalDefine.closeCycle"):
        if not c.get(k):
            out.append("monitor %s is zero" % k)
    return out
