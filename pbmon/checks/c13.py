"""C13 Deterministic programs agree with standard Prolog, including findall order."""
from ..core import ok, viol, skip, COUNTERS
from ..gen import terms as T
from ..gen import prog as G
from ..ref import sld, worlds
from .. import sut, instrument

ID = "C13"
LEVEL = "exploration"
RULE = ("case = generated pure Prolog program: facts over constants and small compound terms (clauses with a variable first/second "
        "argument placed before, between and after clauses with ground arguments: the shape that stresses first-argument indexing), "
        "non-recursive rules with conjunction, disjunction, \\+, =, member/append from library(lists) and findall/3 (also nested and "
        "with multiple bound arguments); answers of every query are compared with a reference SLD interpreter: findall lists as "
        "sequences (order and duplicates), top-level answers as sets; a second class of recursive programs (tabled in ProbLog) is "
        "compared as answer sets with a bottom-up least-model evaluator; non-trivial = query through findall over >= 2 matching "
        "clauses or an indexed call mixing variable- and ground-argument clauses; distinct by program text")
ASSUMPTIONS = ["no SWI-Prolog in the sandbox: the reference is a 150-line SLD interpreter written from the standard (pbmon/ref/sld.py)",
               "top-level answers are compared as sets because ProbLog tables answers"]
LEVEL_TEXT = ("Thousands of small deterministic programs are run by the real engine and by an independent SLD interpreter; every findall "
              "list must be the same sequence, with the clause ids returned by ClauseIndex.find counted as reach evidence.")
LEVEL_NOTE = "Trusts pbmon/ref/sld.py and pbmon/ref/worlds.py (least model); programs are terminating by construction for the SLD reference."
TECHNIQUE = "runtime reference-model monitor (SLD interpreter / least-model evaluator) over generated deterministic programs"
BUDGET = {"quick": 1500, "thorough": 30000}
TIME_BUDGET = {"quick": 200, "thorough": 3000}
CASE_TIMEOUT = 30

CONSTS = [["a", "a"], ["a", "b"], ["a", "c"], ["i", 1], ["i", 2], ["i", 3], ["c", "f", [["a", "a"]]], ["c", "g", [["i", 1], ["a", "b"]]]]


def setup_worker(tier):
    instrument.reach_install({"clausedb.py": ["ClauseIndex.find", "ClauseIndex.append"], "engine_builtin.py": ["_builtin_findall_base"]})


def V(n):
    return ["v", n]


def C(f, *a):
    return ["c", f, list(a)]


def gen_case(rng, i, tier):
    if i % 5 == 4:
        p = G.gen(rng, stratified=True, mode=rng.choice(["mixed", "graph", "prop"]), n_evidence=0)
        return dict(kind="recursive", prog=p)
    cl = []          # [head, body|None]
    k = rng.choice([4, 5, 6])
    consts = CONSTS[:k] if rng.random() < 0.5 else rng.sample(CONSTS, k)
    ar3 = rng.random() < 0.35
    ground_only = (i % 2 == 0)

    def const():
        return rng.choice(consts)
    # p/2 (or p/3): facts with variable arguments interleaved
    n = rng.randint(3, 8)
    for j in range(n):
        a1 = V("X") if rng.random() < 0.25 and not ground_only else const()
        a2 = V("Y") if rng.random() < 0.15 and not ground_only else const()
        if a1[0] == "v" and a2[0] == "v" and rng.random() < 0.5:
            a2 = a1
        args = [a1, a2] + ([["i", j]] if ar3 else [])
        cl.append([C("p", *args), None])
    for j in range(rng.randint(2, 5)):
        cl.append([C("q", V("Z") if rng.random() < 0.12 and not ground_only else const()), None])
    for j in range(rng.randint(2, 6)):
        cl.append([C("e", const(), const()), None])
    if rng.random() < 0.3:
        rng.shuffle(cl)
    pa = (lambda x, y: C("p", x, y, V("_N%d" % rng.randrange(99)))) if ar3 else (lambda x, y: C("p", x, y))
    rules = [
        [C("r1", V("X"), V("Y")), C(",", pa(V("X"), V("Z")), C("e", V("Z"), V("Y")))],
        [C("r2", V("X")), C(";", C("q", V("X")), pa(V("X"), V("_A")))],
        [C("r3", V("X")), C(",", pa(V("X"), V("Y")), C("\\+", C("q", V("Y"))))],
        [C("r4", V("X"), V("Y")), C(",", C("e", V("X"), V("Y")), C("\\=", V("X"), V("Y")))],
        [C("r5", V("X")), C(",", C("member", V("X"), ["l", [const(), const(), const()], None]), C("q", V("X")))],
        [C("r6", V("L")), C("append", ["l", [const()], None], ["l", [const(), const()], None], V("L"))],
        [C("r7", V("X"), V("Y")), C(",", C("=", V("X"), const()), pa(V("X"), V("Y")))],
    ]
    cl += rng.sample(rules, rng.randint(3, len(rules)))
    c1, c2 = const(), const()
    fas = [
        [C("fa1", V("L")), C("findall", V("Y"), pa(c1, V("Y")), V("L"))],
        [C("fa2", V("L")), C("findall", C("-", V("X"), V("Y")), pa(V("X"), V("Y")), V("L"))],
        [C("fa3", V("L")), C("findall", V("X"), C(",", pa(V("X"), V("Z")), C("q", V("Z"))), V("L"))],
        [C("fa4", V("L")), C("findall", V("X"), C(";", C("q", V("X")), C("e", V("X"), c2)), V("L"))],
        [C("fa5", V("X"), V("L")), C(",", C("q", V("X")), C("findall", V("Y"), pa(V("X"), V("Y")), V("L")))],
        [C("fa6", V("L")), C("findall", V("K"), C(",", C("e", V("X"), V("_B")), C("findall", V("Y"), pa(V("X"), V("Y")), V("K"))), V("L"))],
        [C("fa7", V("L")), C("findall", V("Y"), pa(V("Y"), c1), V("L"))],
    ]
    if ar3:
        fas.append([C("fa8", V("L")), C("findall", V("N"), C("p", c1, c2, V("N")), V("L"))])
        fas.append([C("fa9", V("L")), C("findall", V("N"), C(",", C("e", V("X"), V("Y")), C("p", V("X"), V("Y"), V("N"))), V("L"))])
    cl += rng.sample(fas, rng.randint(3, len(fas)))
    # filler facts shift clause node ids (index buckets of different sizes)
    for j in range(rng.randint(0, 12)):
        cl.insert(rng.randrange(len(cl) + 1), [C("filler", ["i", j]), None])
    queries = []
    for head, body in cl:
        if body is not None:
            queries.append(C(head[1], *[V("_Q%d" % q) for q in range(len(head[2]))]))
    queries.append(pa(c1, V("_Q0")))
    return dict(kind="sld", clauses=cl, queries=queries)


def goal_txt(g):
    if g[0] == "c" and g[1] in (",", ";") and len(g[2]) == 2:
        return "(%s %s %s)" % (goal_txt(g[2][0]), g[1], goal_txt(g[2][1]))
    if g[0] == "c" and g[1] == "\\+":
        return "\\+ %s" % goal_txt(g[2][0])
    if g[0] == "c" and g[1] in ("=", "\\=", "-") and len(g[2]) == 2:
        return "(%s %s %s)" % (goal_txt(g[2][0]), g[1], goal_txt(g[2][1]))
    if g[0] == "c":
        return "%s(%s)" % (g[1], ",".join(goal_txt(a) for a in g[2]))
    return T.txt(g)


def run_case(case):
    if case["kind"] == "recursive":
        return run_recursive(case)
    from problog.program import PrologString
    from problog.engine import DefaultEngine
    from problog.logic import Term
    lines = [":- use_module(library(lists))."]
    for head, body in case["clauses"]:
        lines.append(goal_txt(head) + ("." if body is None else " :- %s." % goal_txt(body)))
    text = "\n".join(lines) + "\n"
    ref_clauses = [(T.tup(h), T.tup(b) if b is not None else ("a", "true")) for h, b in case["clauses"]] + sld.lists_lib()
    try:
        eng = DefaultEngine()
        db = eng.prepare(PrologString(text))
    except Exception as e:  # noqa
        o = sut.outcome_of_exception(e)
        return viol("prepare:%s" % o["sig"], "preparing the program raised %s\n%s" % (sut.describe(o), text), sample=text)
    n = 0
    nt = False
    vs = []
    has_ng_facts = any(body is None and T.variables(head) for head, body in case["clauses"])
    COUNTERS["programs_with_nonground_facts" if has_ng_facts else "programs_all_facts_ground"] += 1
    for q in case["queries"]:
        name, ar = q[1], len(q[2])
        try:
            exp = sld.answers(ref_clauses, T.tup(q))
        except (sld.Depth, sld.Unsupported):
            COUNTERS["reference_gave_up"] += 1
            continue
        n += 1
        try:
            res = eng.query(db, Term.from_string(goal_txt(q)))
        except Exception as e:  # noqa
            o = sut.outcome_of_exception(e)
            vs.append(("query:%s" % o["sig"], "query %s raised %s\n%s" % (goal_txt(q), sut.describe(o), text)))
            continue
        try:
            got = [T.canon_vars(["c", name, [T.from_pl(x) for x in row]], {}) for row in res]
        except ValueError as e:
            vs.append(("unreadable-answer", "%s: %s" % (goal_txt(q), e)))
            continue
        want = [T.canon_vars(list(_untup(a)), {}) for a in exp]
        is_fa = name.startswith("fa")
        if is_fa:
            COUNTERS["findall_queries"] += 1
            if any(_len_list(a) >= 2 for a in want):
                nt = True
        if set(got) != set(want):
            kind = "findall-list" if is_fa else "answer-set"
            why = "same elements in a different order" if is_fa and _bags(got) == _bags(want) else "different answers"
            ng = "|nonground-facts" if has_ng_facts else ("|duplicate-solutions" if _has_dups(want) else "")
            vs.append(("%s:%s%s" % (kind, "order" if why.startswith("same") else "content", ng),
                       "query %s: problog answers %s; Prolog answers %s (%s)\n%s" % (
                           goal_txt(q), [_show(a) for a in got], [_show(a) for a in want], why, text)))
    if vs:
        return viol(vs[0][0], vs[0][1], nontrivial=nt, n=max(1, n), sample=text, extra_viols=[list(x) for x in vs[1:]])
    if n == 0:
        return skip("no query evaluated")
    return ok(nontrivial=nt, n=n, sample=text, feat=["sld"])


def _untup(t):
    if t[0] == "c":
        return ["c", t[1], [list(_untup(a)) for a in t[2]]]
    return list(t)


def _len_list(a):
    """length of the last argument if it is a list"""
    if a[0] != "c" or not a[2]:
        return 0
    t, n = a[2][-1], 0
    while t[0] == "c" and t[1] == "." and len(t[2]) == 2:
        n += 1
        t = t[2][1]
    return n


def _has_dups(answers):
    """does some expected findall list contain the same solution twice (anywhere, also in nested lists)?"""
    def lists(t):
        if t[0] == "c" and t[1] == "." and len(t[2]) == 2:
            items = []
            while t[0] == "c" and t[1] == "." and len(t[2]) == 2:
                items.append(t[2][0])
                t = t[2][1]
            yield items
            for it in items:
                for x in lists(it):
                    yield x
        elif t[0] == "c":
            for a in t[2]:
                for x in lists(a):
                    yield x
    for a in answers:
        for items in lists(a):
            if len(set(map(str, items))) != len(items):
                return True
    return False


def _bags(answers):
    out = []
    for a in answers:
        t, items = a[2][-1] if a[0] == "c" and a[2] else a, []
        while t[0] == "c" and t[1] == "." and len(t[2]) == 2:
            items.append(str(t[2][0]))
            t = t[2][1]
        out.append((str(a[2][:-1]) if a[0] == "c" else "", tuple(sorted(items))))
    return sorted(out)


def _show(t):
    if t[0] == "c" and t[1] == "." and len(t[2]) == 2:
        items = []
        while t[0] == "c" and t[1] == "." and len(t[2]) == 2:
            items.append(_show(t[2][0]))
            t = t[2][1]
        return "[%s]" % ",".join(items) if t == ("a", "[]") else "[%s|%s]" % (",".join(items), _show(t))
    if t[0] == "c":
        return "%s(%s)" % (t[1], ",".join(_show(a) for a in t[2]))
    return str(t[1])


def run_recursive(case):
    """recursive class: ProbLog (tabling) answer set == least Herbrand model"""
    from problog.program import PrologString
    from problog.engine import DefaultEngine
    from problog.logic import Term
    p = case["prog"]
    det = dict(consts=p["consts"], queries=p["queries"], evidence=[], clauses=[])
    for c in p["clauses"]:
        if c[0] == "fact":
            det["clauses"].append(["rule", None, c[2], []])
        elif c[0] == "rule":
            det["clauses"].append(["rule", None, c[2], c[3]])
        else:
            # every head of an annotated disjunction becomes a deterministic rule (keeps every predicate of the program defined)
            for _p, h in c[1]:
                det["clauses"].append(["rule", None, h, c[2]])
    F = G.features(det)
    if not F["rec"] or F["contra_cyc"] or F["neg_cyclic_in_cycle"]:
        return skip("not a clean recursive program")
    R = worlds.reference(det, max_worlds=4)
    if R.status != "ok":
        return skip("reference " + R.status)
    text = G.to_text(det, queries=False, evidence=False)
    eng = DefaultEngine()
    vs = []
    n = 0
    try:
        db = eng.prepare(PrologString(text))
        for q in det["queries"]:
            n += 1
            res = eng.query(db, Term(q[0], *[None if G.isvar(a) else _const(a) for a in q[1]]))
            got = {worlds.aname((q[0], tuple(int(str(x)) for x in row))) for row in res}
            want = {nm for nm, pr in R.probs.items() if pr == 1 and nm.split("(")[0] == q[0] and
                    worlds.match(q, (q[0], tuple(int(x) for x in nm[len(q[0]) + 1:-1].split(",")) if "(" in nm else ()))}
            if got != want:
                vs.append(("recursive:answer-set", "query %s: problog %s, least model %s\n%s" % (G.lit_txt(q), sorted(got), sorted(want), text)))
    except Exception as e:  # noqa
        o = sut.outcome_of_exception(e)
        vs.append(("recursive:%s" % o["sig"], "raised %s\n%s" % (sut.describe(o), text)))
    COUNTERS["recursive_programs"] += 1
    if vs:
        return viol(vs[0][0], vs[0][1], n=max(1, n), sample=text, extra_viols=[list(x) for x in vs[1:]])
    return ok(nontrivial=True, n=max(1, n), sample=text, feat=["recursive"])


def _const(a):
    from problog.logic import Constant
    return Constant(a)


def floors(agg):
    c = agg["counters"]
    return ["monitor %s is zero" % k for k in ("findall_queries", "recursive_programs", "reach:clausedb:ClauseIndex.find") if not c.get(k)]
