"""C33 The soft-cut library picks the lowest-indexed applicable rule."""
from fractions import Fraction as F
import itertools

from ..core import ok, viol, COUNTERS
from .. import sut, instrument

ID = "C33"
LEVEL = "exploration"
RULE = ("case = indexed rule set r(I, A, B) with indices drawn from 1..15 written in shuffled file order; applicability of each rule "
        "is decided by facts, conditions on arguments and probabilistic conditions; queries cut(r(A,B)) and cut(r(A,B), I) with "
        "bound / unbound arguments; the reference enumerates the probabilistic conditions' worlds and in each world takes the "
        "answers of the applicable rule with the smallest numeric index; every reported instance and probability must match; "
        "non-trivial = rule set with >= 3 rules, an index >= 10 and a smaller applicable index after it in the file; distinct by text")
ASSUMPTIONS = ["'applicable' = the rule head unifies with the call and its body succeeds in the world", "tolerance 1e-9"]
LEVEL_TEXT = "Generated rule sets through the real cut/1, cut/2 library clauses versus a direct per-world minimum-index oracle."
LEVEL_NOTE = "Depends on sort/2 ordering (C15) and all/3."
TECHNIQUE = "runtime reference-model monitor (per-world minimum-index oracle) for library(cut)"
BUDGET = {"quick": 500, "thorough": 8000}
TIME_BUDGET = {"quick": 200, "thorough": 3000}
CASE_TIMEOUT = 40


def gen_case(rng, i, tier):
    nr = rng.randint(2, 6)
    idx = rng.sample(range(1, 16), nr)
    if rng.random() < 0.6 and not any(j >= 10 for j in idx):
        idx[0] = rng.randint(10, 15)
    consts = ["a", "b", "c"]
    pfacts = [["p%d" % k, rng.choice(["0.3", "0.5", "0.8"])] for k in range(rng.randint(0, 3))]
    rules = []
    for j in idx:
        a = rng.choice(consts + ["_"])
        b = rng.choice(consts)
        cond = rng.choice(["true", "true", "pf", "pf", "fail"])
        c = rng.choice(pfacts)[0] if cond == "pf" and pfacts else ("true" if cond != "fail" else "fail")
        rules.append([j, a, b, c])
    rng.shuffle(rules)
    qa = rng.choice(consts + ["_", "_"])
    return dict(rules=rules, pfacts=pfacts, qa=qa, with_index=bool(i % 2))


def run_case(case):
    rules, pfacts, qa = case["rules"], case["pfacts"], case["qa"]
    lines = [":- use_module(library(cut))."]
    for nm, p in pfacts:
        lines.append("%s::%s." % (p, nm))
    for j, a, b, c in rules:
        head = "r(%d,%s,%s)" % (j, "_X" if a == "_" else a, b) if a != "_" else "r(%d,X,%s)" % (j, b)
        lines.append(head + ("." if c == "true" else " :- %s." % c))
    if case["with_index"]:
        lines.append("q(A,B,I) :- A = %s, cut(r(A,B), I)." % qa if qa != "_" else "q(A,B,I) :- cut(r(A,B), I).")
        lines.append("query(q(_,_,_)).")
    else:
        lines.append("q(A,B) :- A = %s, cut(r(A,B))." % qa if qa != "_" else "q(A,B) :- cut(r(A,B)).")
        lines.append("query(q(_,_)).")
    text = "\n".join(lines) + "\n"
    # reference
    exp = {}
    names = [nm for nm, _ in pfacts]
    for combo in itertools.product([0, 1], repeat=len(names)):
        w = F(1)
        world = {}
        for (nm, p), bit in zip(pfacts, combo):
            w *= F(p) if bit else 1 - F(p)
            world[nm] = bool(bit)
        best = None
        for j, a, b, c in sorted(rules):
            if c == "fail" or (c in world and not world[c]):
                continue
            if qa != "_" and a != "_" and a != qa:
                continue
            best = (j, a, b)
            break
        if best is None:
            continue
        j, a, b = best
        if qa == "_" and a == "_":
            key = None      # non-ground answer (A unbound): reported as a non-ground instance
        else:
            A = qa if qa != "_" else a
            key = "q(%s,%s,%d)" % (A, b, j) if case["with_index"] else "q(%s,%s)" % (A, b)
        if key is not None:
            exp[key] = exp.get(key, F(0)) + w
        else:
            exp["__nonground__"] = exp.get("__nonground__", F(0)) + w
    if "__nonground__" in exp or (qa == "_" and any(a == "_" for _j, a, _b, _c in rules)):
        return ok(nontrivial=False, feat=["nonground-answer-skipped"], sample=text)
    o = sut.evaluate_text(text)
    if o["kind"] != "ok":
        return viol("cut:%s" % o["sig"], "problog raised %s\n%s" % (sut.describe(o), text), sample=text)
    got = {k.replace(" ", ""): v for k, v in o["result"].items() if sut.is_ground_name(k)}
    idxs = [r[0] for r in rules]
    nt = len(rules) >= 3 and any(j >= 10 for j in idxs)
    for k, p in exp.items():
        if abs(got.get(k, 0.0) - float(p)) > 1e-9:
            return viol("cut:wrong-rule", "%s: problog %.10g, lowest-applicable-index semantics %.10g (reported %s)\n%s" % (
                k, got.get(k, 0.0), float(p), {g: round(v, 6) for g, v in sorted(got.items())}, text), nontrivial=nt, sample=text)
    for k, v in got.items():
        if k not in exp and abs(v) > 1e-9:
            return viol("cut:extra-answer", "%s reported with %.10g; expected only %s\n%s" % (k, v, sorted(exp), text), nontrivial=nt, sample=text)
    COUNTERS["rule_sets"] += 1
    if any(j >= 10 for j in idxs):
        COUNTERS["with_two_digit_index"] += 1
    return ok(nontrivial=nt, feat=["with_index" if case["with_index"] else "cut1"], sample=text)


def floors(agg):
    c = agg["counters"]
    return ["monitor %s is zero" % k for k in ("rule_sets", "with_two_digit_index") if not c.get(k)]
