"""Shared runner: sharded worker subprocesses, per-case watchdogs, aggregation, known findings,
evidence files, replay.  A check module (pbmon/checks/cNN.py) provides

    ID, LEVEL, RULE, ASSUMPTIONS, BUDGET = {'quick': n, 'thorough': n}
    gen_case(rng, i, tier) -> JSON-serialisable case (or None to skip index i)
    run_case(case) -> result dict built with ok()/viol()/skip()/inc()
    optional: setup_worker(tier), floors(agg) -> list of inconclusive reasons,
              CASE_TIMEOUT (s), TIME_BUDGET = {'quick': s, 'thorough': s}, SHARDS

Verdicts are three-valued: exit 0 held / exit 1 VIOLATION / exit 3 INCONCLUSIVE.
"""
import collections
import hashlib
import importlib
import json
import os
import random
import re
import shutil
import signal
import subprocess
import sys
import tempfile
import time
import traceback

from . import VERIF_ROOT, REPO, GUARD

# evidence / replays / last-run records go under VERIF_ROOT unless PBMON_OUT redirects them (used when trying seeded changes)
OUT_ROOT = os.environ.get("PBMON_OUT") or VERIF_ROOT

COUNTERS = collections.Counter()  # monitor counters of the current worker process


class Watchdog(BaseException):
    """Raised by SIGALRM; BaseException so that `except Exception` in problog cannot swallow it."""


def _alarm(signum, frame):
    raise Watchdog()


# ------------------------------------------------------------------ result constructors
def ok(nontrivial=True, key=None, feat=(), sample=None, n=1, **extra):
    r = dict(status="ok", nontrivial=bool(nontrivial), feat=list(feat), n=n)
    if key is not None:
        r["key"] = key
    if sample is not None:
        r["sample"] = sample
    r.update(extra)
    return r


def viol(sig, detail, nontrivial=True, key=None, feat=(), sample=None, n=1, **extra):
    r = dict(status="viol", sig=sig, detail=detail, nontrivial=bool(nontrivial), feat=list(feat), n=n)
    if key is not None:
        r["key"] = key
    if sample is not None:
        r["sample"] = sample
    r.update(extra)
    return r


def skip(reason, feat=()):
    return dict(status="skip", reason=reason, feat=list(feat), nontrivial=False, n=1)


def inc(reason, feat=()):
    return dict(status="inc", reason=reason, feat=list(feat), nontrivial=False, n=1)


def frame_sig(exc):
    """(class, innermost frame inside the repository) signature of an exception."""
    tb = traceback.extract_tb(exc.__traceback__)
    where = "?"
    for fr in reversed(tb):
        fn = fr.filename
        if "/problog/" in fn and "/pbmon/" not in fn:
            where = "%s:%s" % (os.path.basename(fn), fr.name)
            break
    return "%s@%s" % (type(exc).__name__, where)


def short_exc(exc, limit=300):
    s = "%s: %s" % (type(exc).__name__, exc)
    return s[:limit]


# ------------------------------------------------------------------ known findings
def match_known(known, sig):
    """entry of known_findings.json matching the signature (exact, then regex), else None"""
    if sig in known and sig != "__regex__":
        return known[sig]
    for rx, e in known.get("__regex__", []):
        if rx.search(sig):
            return e
    return None


def load_known(prop):
    path = os.path.join(VERIF_ROOT, "known_findings.json")
    known, fixed = {}, []
    if os.path.exists(path):
        with open(path) as f:
            data = json.load(f)
        for e in data.get("findings", []):
            if e.get("property") != prop and prop not in e.get("properties", []):
                continue
            if e.get("status") == "known":
                for s in e.get("signatures", [e.get("signature")] if e.get("signature") else []):
                    known[s] = e
                for rx in e.get("signature_regexes", []):
                    known.setdefault("__regex__", []).append((re.compile(rx), e))
            else:
                fixed.append(e)
    return known, fixed


# ------------------------------------------------------------------ worker
def case_rng(seed, cid, i):
    return random.Random("%s/%s/%s" % (seed, cid, i))


def worker_main(argv):
    cid, tier, seed, shard, nshards, ncases, outpath, deadline = argv[:8]
    seed, shard, nshards, ncases, deadline = int(seed), int(shard), int(nshards), int(ncases), float(deadline)
    os.environ[GUARD] = "1"
    mod = importlib.import_module("pbmon.checks." + cid.lower())
    signal.signal(signal.SIGALRM, _alarm)
    timeout = getattr(mod, "CASE_TIMEOUT", 20)
    t0 = time.time()
    out = open(outpath, "w")
    if hasattr(mod, "setup_worker"):
        mod.setup_worker(tier)
    cut = 0
    for i in range(shard, ncases, nshards):
        if time.time() - t0 > deadline:
            cut += 1
            continue
        try:
            rec = run_one(mod, cid, seed, i, tier, timeout)
            line = json.dumps(rec, default=str)
        except (KeyboardInterrupt, SystemExit):
            raise
        except BaseException:  # noqa  (a late watchdog, or an object in the record whose str() raises): never lose the worker
            signal.alarm(0)
            rec = {"i": i, "status": "harness_error", "detail": traceback.format_exc()[-1500:], "nontrivial": False, "feat": [], "n": 1,
                   "key": "i%d" % i}
            line = json.dumps(rec, default=repr)
        out.write(line + "\n")
        out.flush()
    if hasattr(mod, "teardown_worker"):
        try:
            mod.teardown_worker()
        except Exception:
            pass
    out.write(json.dumps({"_end": True, "cut": cut, "counters": dict(COUNTERS)}) + "\n")
    out.close()


def run_one(mod, cid, seed, i, tier, timeout, case=None):
    rec = {"i": i}
    try:
        signal.alarm(timeout)
        try:
            if case is None:
                case = mod.gen_case(case_rng(seed, cid, i), i, tier)
            if case is None:
                res = skip("no case")
            else:
                rec["case"] = case
                res = mod.run_case(case)
        finally:
            signal.alarm(0)
    except Watchdog:
        res = dict(status="watchdog", nontrivial=False, feat=[], n=1)
    except RecursionError as e:
        res = dict(status="inc", reason="RecursionError in harness/case", nontrivial=False, feat=[], n=1)
    except Exception as e:  # harness error: never a violation
        res = dict(status="harness_error", detail=traceback.format_exc()[-1500:], nontrivial=False, feat=[], n=1)
    rec.update(res)
    if "key" not in rec:
        rec["key"] = hashlib.sha1(json.dumps(rec.get("case"), sort_keys=True, default=str).encode()).hexdigest()[:16]
    return rec


# ------------------------------------------------------------------ parent
def ensure_deps():
    """Install icontract/deal from the offline wheelhouse into /verif/.deps if missing."""
    deps = os.path.join(VERIF_ROOT, ".deps")
    if os.path.isdir(os.path.join(deps, "icontract")):
        return True
    try:
        subprocess.run([sys.executable, "-m", "pip", "install", "-q", "--no-index", "--find-links",
                        "/opt/veriftools/wheels", "--target", deps, "icontract", "deal"],
                       check=True, stdout=subprocess.DEVNULL, stderr=subprocess.DEVNULL, timeout=300)
        return True
    except Exception:
        return False


def check_main(cid, tier=None, seed=None, replay=None, ncases=None, shards=None):
    cid = cid.upper()
    tier = tier or os.environ.get("VERIF_TIER", "quick")
    if tier not in ("quick", "thorough"):
        tier = "quick"
    try:
        seed = int(seed if seed is not None else os.environ.get("VERIF_SEED", "0"))
    except ValueError:
        seed = 0
    mod = importlib.import_module("pbmon.checks." + cid.lower())
    if getattr(mod, "NEEDS_DEPS", False):
        if not ensure_deps():
            print("INCONCLUSIVE property=%s reason=dependency install failed" % cid)
            return 3
    if replay:
        return do_replay(mod, cid, replay)
    n = ncases or mod.BUDGET[tier]
    nshards = shards or getattr(mod, "SHARDS", 16)
    nshards = max(1, min(nshards, n))
    budget = getattr(mod, "TIME_BUDGET", {"quick": 240, "thorough": 3600})[tier]
    t0 = time.time()
    scratch = tempfile.mkdtemp(prefix="pbmon.%s." % cid)
    env = dict(os.environ)
    env["PYTHONHASHSEED"] = "0"
    env["PYTHONPATH"] = os.pathsep.join([VERIF_ROOT, os.path.join(VERIF_ROOT, ".deps")] +
                                        ([env["PYTHONPATH"]] if env.get("PYTHONPATH") else []))
    env["TMPDIR"] = scratch
    env["PYTHONWARNINGS"] = "ignore"
    env[GUARD] = "1"
    if hasattr(mod, "prepare"):
        # one-off preparation in the parent (e.g. sanitizer build); may extend env
        mod.prepare(scratch, env, tier)
    procs = []
    for s in range(nshards):
        outp = os.path.join(scratch, "shard%d.jsonl" % s)
        wd = os.path.join(scratch, "wd%d" % s)
        os.makedirs(wd, exist_ok=True)
        p = subprocess.Popen([sys.executable, "-m", "pbmon.worker", cid, tier, str(seed), str(s),
                              str(nshards), str(n), outp, str(budget)], env=env, cwd=wd,
                             stdout=subprocess.DEVNULL, stderr=open(os.path.join(scratch, "err%d.txt" % s), "w"))
        procs.append((p, outp, s))
    hard = budget + getattr(mod, "CASE_TIMEOUT", 20) * 3 + 60
    dead = 0
    for p, outp, s in procs:
        try:
            p.wait(timeout=max(1, hard - (time.time() - t0)))
        except subprocess.TimeoutExpired:
            p.kill()
            p.wait()
            dead += 1
    recs, counters, cut, ended = [], collections.Counter(), 0, 0
    stderr_tail = ""
    for p, outp, s in procs:
        if os.path.exists(outp):
            with open(outp) as f:
                for line in f:
                    try:
                        r = json.loads(line)
                    except ValueError:
                        continue
                    if r.get("_end"):
                        ended += 1
                        cut += r.get("cut", 0)
                        counters.update(r.get("counters", {}))
                    else:
                        recs.append(r)
        if p.returncode not in (0, None) and not stderr_tail:
            try:
                stderr_tail = open(os.path.join(scratch, "err%d.txt" % s)).read()[-2000:]
            except OSError:
                pass
    if hasattr(mod, "collect"):
        # parent-side monitors that observe the whole run (e.g. sanitizer log files): may add records and counters
        mod.collect(scratch, recs, counters)
    rc = aggregate(mod, cid, tier, seed, n, nshards, recs, counters, cut, ended, dead, stderr_tail, time.time() - t0)
    shutil.rmtree(scratch, ignore_errors=True)
    return rc


def aggregate(mod, cid, tier, seed, n, nshards, recs, counters, cut, ended, dead, stderr_tail, wall):
    known, fixed = load_known(cid)
    st = collections.Counter()
    feats = collections.Counter()
    keys_nt = set()
    evaluations = 0
    samples = []
    viols = []
    known_hits = collections.Counter()
    reasons = collections.Counter()
    for r in recs:
        s = r.get("status")
        st[s] += 1
        for f in r.get("feat", []):
            feats[f] += 1
        if s in ("ok", "viol"):
            evaluations += int(r.get("n", 1))
            if r.get("nontrivial"):
                for k in (r.get("keys") or [r.get("key")]):
                    keys_nt.add(k)
            if len(samples) < 4 and (r.get("sample") is not None or r.get("case") is not None) and r.get("nontrivial"):
                samples.append(r.get("sample") if r.get("sample") is not None else r.get("case"))
        if s == "viol":
            # a case may carry several violations (batches): every one is classified on its own, so that a known
            # finding inside a batch cannot hide an unknown violation of the same batch
            allv = [(r["sig"], r.get("detail"))] + [tuple(x) for x in r.get("extra_viols", [])]
            for vsig, vdetail in allv:
                if match_known(known, vsig) is not None:
                    known_hits[vsig] += 1
                else:
                    r2 = dict(r)
                    r2["sig"], r2["detail"] = vsig, vdetail
                    viols.append(r2)
        if s in ("skip", "inc"):
            reasons["%s:%s" % (s, r.get("reason"))] += 1
    done = len(recs)
    # keep the non-ok records of the last run for triage (git-ignored)
    try:
        ldir = os.path.join(OUT_ROOT, "out", "last")
        os.makedirs(ldir, exist_ok=True)
        with open(os.path.join(ldir, "%s.%s.jsonl" % (cid, tier)), "w") as lf:
            kept = 0
            for r in recs:
                if r.get("status") != "ok" and kept < 3000:      # bounded: thorough tiers have thousands of known-finding records
                    kept += 1
                    line = json.dumps(r, default=str)
                    if len(line) > 20000:
                        r = dict(r)
                        for k in ("detail", "sample"):
                            if isinstance(r.get(k), str):
                                r[k] = r[k][:4000]
                        r.pop("case", None)
                        r["extra_viols"] = [[x[0], str(x[1])[:2000]] for x in r.get("extra_viols", [])][:10]
                        line = json.dumps(r, default=str)
                    lf.write(line + "\n")
    except OSError:
        pass
    lost = n - done - cut
    problems = []
    if ended < nshards or dead:
        problems.append("%d of %d workers did not finish (dead=%d)%s" % (nshards - ended, nshards, dead,
                        (" stderr: " + stderr_tail[-300:].replace("\n", " | ")) if stderr_tail else ""))
    bad = st["watchdog"] + st["harness_error"] + max(lost, 0)
    wd_limit = getattr(mod, "WATCHDOG_FRACTION", 0.02)
    if done and st["watchdog"] + max(lost, 0) > max(3, wd_limit * n):
        problems.append("too many watchdog/lost cases: %d watchdog, %d lost of %d" % (st["watchdog"], lost, n))
    if st["harness_error"]:
        ex = next(r for r in recs if r.get("status") == "harness_error")
        problems.append("%d harness errors, e.g. %s" % (st["harness_error"], ex.get("detail", "")[-400:].replace("\n", " | ")))
    if cut > 0.5 * n:
        problems.append("time budget cut %d of %d cases" % (cut, n))
    if st["inc"] > max(3, 0.1 * n):
        problems.append("%d cases individually inconclusive: %s" % (st["inc"], dict(reasons.most_common(3))))
    if evaluations == 0:
        problems.append("no evaluations")
    agg = dict(status=st, feats=feats, counters=counters, evaluations=evaluations,
               distinct_nontrivial=len(keys_nt), known_hits=known_hits, n=n, tier=tier, recs=recs)
    if hasattr(mod, "floors") and not viols:
        try:
            problems.extend(mod.floors(agg) or [])
        except Exception as e:
            problems.append("floors() failed: %r" % (e,))
    if len(keys_nt) < 2 and not viols:
        problems.append("fewer than 2 distinct non-trivial cases")
    # ---- replays
    replay_paths = []
    by_sig = collections.OrderedDict()
    for v in viols:
        by_sig.setdefault(v["sig"], []).append(v)
    rdir = os.path.join(OUT_ROOT, "out", "replays", cid)
    for sig, vs in by_sig.items():
        os.makedirs(rdir, exist_ok=True)
        v = min(vs, key=lambda x: len(json.dumps(x.get("case"), default=str)))
        h = hashlib.sha1((sig + json.dumps(v.get("case"), sort_keys=True, default=str)).encode()).hexdigest()[:12]
        path = os.path.join(rdir, h + ".json")
        with open(path, "w") as f:
            json.dump(dict(property=cid, tier=tier, seed=seed, i=v.get("i"), sig=sig, count=len(vs),
                           case=v.get("case"), detail=v.get("detail")), f, indent=1, default=str)
        replay_paths.append((sig, path, len(vs), v.get("detail")))
    # ---- evidence
    if not samples:
        samples = [r.get("sample") or r.get("case") for r in recs[:2] if r.get("case") is not None or r.get("sample") is not None]
    cov = dict(evaluations=evaluations, distinct_nontrivial=len(keys_nt), rule=mod.RULE, samples=samples[:4],
               cases_planned=n, cases_done=done, cases_cut_by_time_budget=cut, cases_lost=max(lost, 0),
               status_counts=dict(st), feature_histogram=dict(feats.most_common(60)),
               monitor_counters=dict(sorted(counters.items())), skip_reasons=dict(reasons.most_common(10)),
               known_finding_hits=dict(known_hits), violation_signatures={s: c for s, _, c, _ in replay_paths},
               inconclusive_reasons=problems, exhaustive=bool(getattr(mod, "EXHAUSTIVE", False)))
    if mod.LEVEL == "translation_validation":
        cov["programs"] = int(counters.get("tv_programs", evaluations))
        cov["disagreements_checked"] = int(counters.get("disagreements_checked", 0))
    if hasattr(mod, "extra_coverage"):
        try:
            cov.update(mod.extra_coverage(agg) or {})
        except Exception:
            pass
    ev = dict(property_id=cid, tier=tier, seed=seed, level=mod.LEVEL, coverage=cov,
              assumptions=list(getattr(mod, "ASSUMPTIONS", [])), wall_s=round(wall, 2), violations=len(viols),
              verdict="violated" if viols else ("inconclusive" if problems else "held"))
    os.makedirs(os.path.join(OUT_ROOT, "evidence"), exist_ok=True)
    with open(os.path.join(OUT_ROOT, "evidence", cid + ".json"), "w") as f:
        json.dump(ev, f, indent=1, default=str)
    # ---- report
    print("%s tier=%s seed=%d cases=%d/%d evaluations=%d distinct_nontrivial=%d wall=%.1fs status=%s" % (
        cid, tier, seed, done, n, evaluations, len(keys_nt), wall, dict(st)))
    if counters:
        print("monitors: " + ", ".join("%s=%d" % kv for kv in sorted(counters.items())[:40]))
    printed = collections.OrderedDict()
    for sig, c in known_hits.items():
        e = match_known(known, sig)
        key = e.get("id", sig)
        printed.setdefault(key, [e, 0, []])
        printed[key][1] += c
        printed[key][2].append(sig)
    for key, (e, c, sigs) in printed.items():
        print("KNOWN-FINDING: property=%s %s [%s: %d cases this run; signatures %s]" % (
            cid, e.get("description", key), key, c, ", ".join(sorted(sigs)[:6])))
    if viols:
        for sig, path, c, detail in replay_paths:
            print("VIOLATION property=%s replay=%s" % (cid, path))
            print("  signature=%s cases=%d detail=%s" % (sig, c, str(detail)[:600]))
        return 1
    if problems:
        print("INCONCLUSIVE property=%s reason=%s" % (cid, "; ".join(problems)))
        return 3
    print("HELD property=%s on everything explored" % cid)
    return 0


def do_replay(mod, cid, path):
    with open(path) as f:
        rp = json.load(f)
    signal.signal(signal.SIGALRM, _alarm)
    os.environ[GUARD] = "1"
    if hasattr(mod, "setup_worker"):
        mod.setup_worker(rp.get("tier", "quick"))
    wd = tempfile.mkdtemp(prefix="pbmon.replay.")
    cwd = os.getcwd()
    os.chdir(wd)
    try:
        rec = run_one(mod, cid, rp.get("seed", 0), rp.get("i", 0), rp.get("tier", "quick"),
                      getattr(mod, "CASE_TIMEOUT", 20), case=rp["case"])
    finally:
        os.chdir(cwd)
        shutil.rmtree(wd, ignore_errors=True)
    known, _ = load_known(cid)
    print(json.dumps({k: v for k, v in rec.items() if k != "case"}, indent=1, default=str))
    if rec.get("status") == "viol":
        if match_known(known, rec["sig"]) is not None:
            print("KNOWN-FINDING: property=%s %s" % (cid, match_known(known, rec["sig"]).get("description", rec["sig"])))
            return 0
        print("VIOLATION property=%s replay=%s" % (cid, path))
        return 1
    return 0 if rec.get("status") == "ok" else 3


