"""pbmon - runtime monitors for ML-KULeuven/problog (see /verif/DESIGN.md)."""
import os

VERIF_ROOT = os.path.dirname(os.path.dirname(os.path.abspath(__file__)))
REPO = os.environ.get("PBMON_REPO", "/repo")
GUARD = "ML_KULEUVEN_PROBLOG_VERIF"
