"""Translation validation oracles for the pipeline instances captured at the transformation registry (I1):
break_cycles (LogicFormula -> LogicDAG), clarks_completion (LogicDAG -> CNF), _compile_with_dsharp (CNF -> DDNNF).
Each returns None (validated), ("skip", reason) or ("viol", signature, detail)."""
from .ref import boolfn as B


def atom_universe(formula):
    ids = []
    for key, node, ntype in formula:
        if ntype == "atom" and node.identifier not in ids:
            ids.append(node.identifier)
    return ids


def names_of(formula):
    out = {}
    for name, key, label in formula.get_names_with_label():
        out[(str(name), label)] = key
    return out


def ad_constraints_incomplete(formula):
    """two atoms of one annotated-disjunction group that no common constraint of the formula mentions (the mutual exclusion is lost)"""
    groups = {}
    for key, node, ntype in formula:
        if ntype == "atom" and node.group is not None and not node.is_extra:
            groups.setdefault(node.group, []).append(key)
    cons = []
    for c in formula.constraints():
        try:
            cons.append(set(abs(x) for x in c.get_nodes()))
        except Exception:  # noqa
            pass
    for g, keys in groups.items():
        if len(keys) >= 2 and not any(set(keys) <= cs for cs in cons):
            return g, keys
    return None


def validate_break_cycles(src, dag, max_atoms):
    uni = atom_universe(src)
    if len(uni) > max_atoms:
        return ("skip", "too many atoms")
    bad = ad_constraints_incomplete(src)
    if bad is not None:
        # the INPUT of the transformation is already inconsistent (a grounder defect seen at this hook): the DAG rebuilds the constraint
        return ("viol", "break_cycles:source-ad-constraint-incomplete", "the ground program handed to break_cycles has atoms %r of AD group %r "
                "without a common mutual-exclusion constraint" % (bad[1], bad[0]))
    for ident in atom_universe(dag):
        if ident not in uni:
            return ("viol", "break_cycles:new-atom", "DAG contains atom %r that the source formula does not" % (ident,))
    try:
        ts = B.formula_tables(src, uni)
        td = B.formula_tables(dag, uni)
    except B.NegationInCycle:
        return ("skip", "negation inside a cycle of the ground formula")
    FULL = B.full(len(uni))
    # evidence (least-model value of every evidence literal of the source)
    E = FULL
    for name, key, v in src.evidence_all():
        if v > 0:
            E &= B.lit(key, ts, FULL)
        elif v < 0:
            E &= FULL & ~B.lit(key, ts, FULL)
    propagated = src.has_evidence_values() and len(src.get_evidence_values()) > 0
    mask = E if propagated else FULL
    ns, nd = names_of(src), names_of(dag)
    cyc = _has_cycle(src)
    checked = 0
    for (name, label), key in ns.items():
        if label == src.LABEL_NAMED:
            continue
        if (name, label) not in nd:
            return ("viol", "break_cycles:missing-label", "label %s (%s) of the source is missing in the DAG" % (name, label))
        a = B.lit(key, ts, FULL)
        b = B.lit(nd[(name, label)], td, FULL)
        is_ev = label in (src.LABEL_EVIDENCE_POS, src.LABEL_EVIDENCE_NEG, src.LABEL_EVIDENCE_MAYBE)
        m = FULL if is_ev else mask
        checked += 1
        if (a ^ b) & m:
            bad = ((a ^ b) & m)
            asg = (bad & -bad).bit_length() - 1
            return ("viol", "break_cycles:%s-node-differs%s" % ("evidence" if is_ev else "query", "" if cyc else ":acyclic"),
                    "node %s [%s]: least-model value in the cyclic formula is %d but %d in the acyclic program under atom assignment %s%s"
                    % (name, label, (a >> asg) & 1, (b >> asg) & 1, _show_asg(uni, asg),
                       " (compared on assignments consistent with the evidence)" if m != FULL else ""))
    return ("ok", checked, cyc)


def _show_asg(uni, asg):
    return "{" + ", ".join("%s=%d" % (u, (asg >> k) & 1) for k, u in enumerate(uni)) + "}"


def _has_cycle(formula):
    nodes = {key: node for key, node, ntype in formula if ntype != "atom"}

    def kids(k):
        return [abs(c) for c in nodes[k].children if c is not None and c != 0 and abs(c) in nodes] if k in nodes else ()
    for comp in B.sccs(list(nodes), kids):
        if len(comp) > 1 or comp[0] in kids(comp[0]):
            return True
    return False


def cnf_clauses(cnf):
    """(definitional clauses, constraint clauses) as lists of literal lists"""
    defs, cons = [], []
    for c in cnf.clauses:
        head, body = c[0], c[1:]
        if head == "c":
            continue
        if head is None or (type(head) == bool and not head):
            cons.append(list(body))
        else:
            defs.append([head] + list(body))
    return defs, cons


def validate_clark(dag, cnf, max_atoms, max_enum_nodes=12):
    uni = atom_universe(dag)
    if len(uni) > max_atoms:
        return ("skip", "too many atoms")
    if cnf.atomcount != len(dag):
        return ("viol", "clark:atomcount", "CNF has %d variables, the acyclic program has %d nodes" % (cnf.atomcount, len(dag)))
    td = B.formula_tables(dag, uni)
    FULL = B.full(len(uni))
    defs, cons = cnf_clauses(cnf)
    # (a) the extension given by the DAG's node values satisfies every definitional clause under every atom assignment
    for cl in defs:
        t = 0
        for l in cl:
            t |= B.lit(l, td, FULL)
        if t != FULL:
            bad = FULL & ~t
            asg = (bad & -bad).bit_length() - 1
            return ("viol", "clark:unsound-clause", "clause %s is violated by the acyclic program's own node values under %s" % (
                cl, _show_asg(uni, asg)))
    # (b) uniqueness: flipping any single compound node away from its DAG value must violate a clause, for every assignment
    byvar = {}
    for cl in defs:
        for l in cl:
            byvar.setdefault(abs(l), []).append(cl)
    ncomp = 0
    for key, node, ntype in dag:
        if ntype == "atom":
            continue
        ncomp += 1
        viol_t = 0
        for cl in byvar.get(key, ()):
            t = FULL
            for l in cl:
                if abs(l) == key:
                    t &= B.lit(l, td, FULL)        # literal on the flipped node is false after the flip iff true before
                else:
                    t &= FULL & ~B.lit(l, td, FULL)
            viol_t |= t
        if viol_t != FULL:
            bad = FULL & ~viol_t
            asg = (bad & -bad).bit_length() - 1
            return ("viol", "clark:not-unique", "node %d (%s) is not determined by the CNF: under %s its value can be flipped "
                    "without violating a clause" % (key, ntype, _show_asg(uni, asg)))
    # (b') brute-force model enumeration over the compound variables for a few atom assignments (small instances)
    comp_keys = [key for key, node, ntype in dag if ntype != "atom"]
    atom_keys = {key: node.identifier for key, node, ntype in dag if ntype == "atom"}
    enumerated = 0
    if 0 < len(comp_keys) <= max_enum_nodes:
        pos = {u: k for k, u in enumerate(uni)}
        for asg in sorted({0, (1 << len(uni)) - 1, 0x5555555555 & ((1 << len(uni)) - 1), 0x3333333333 & ((1 << len(uni)) - 1)}):
            base = {k: (asg >> pos[i]) & 1 for k, i in atom_keys.items()}
            models = 0
            for m in range(1 << len(comp_keys)):
                v = dict(base)
                for j, k in enumerate(comp_keys):
                    v[k] = (m >> j) & 1
                if all(any((v[abs(l)] == 1) == (l > 0) for l in cl) for cl in defs):
                    models += 1
                    for k in comp_keys:
                        if v[k] != (td[k] >> asg) & 1:
                            return ("viol", "clark:wrong-extension", "under %s the CNF has a model in which node %d differs from "
                                    "the acyclic program" % (_show_asg(uni, asg), k))
            enumerated += 1
            if models != 1:
                return ("viol", "clark:model-count", "under %s the definitional clauses have %d models extending the atom "
                        "assignment (expected exactly 1)" % (_show_asg(uni, asg), models))
    # (c) constraints, weights, names carried over unchanged
    exp_cons = []
    for c in dag.constraints():
        exp_cons.extend([list(x) for x in c.as_clauses()])
    if sorted(map(sorted, cons)) != sorted(map(sorted, exp_cons)):
        return ("viol", "clark:constraints", "constraint clauses %s differ from the constraints of the acyclic program %s" % (
            sorted(map(sorted, cons))[:6], sorted(map(sorted, exp_cons))[:6]))
    if dict(cnf.get_weights()) != dict(dag.get_weights()):
        return ("viol", "clark:weights", "weights differ")
    if names_of(cnf) != names_of(dag):
        return ("viol", "clark:names", "labels differ: %s vs %s" % (sorted(names_of(cnf).items())[:5], sorted(names_of(dag).items())[:5]))
    return ("ok", ncomp, enumerated)


def validate_ddnnf(cnf, nnf, max_vars):
    n = cnf.atomcount
    if n > max_vars:
        return ("skip", "too many CNF variables")
    if n == 0:
        return ("skip", "empty CNF")
    FULL = B.full(n)
    var = {i + 1: B.var_table(i, n) for i in range(n)}

    def clit(l):
        return var[l] if l > 0 else FULL & ~var[-l]
    defs, cons = cnf_clauses(cnf)
    M = FULL
    for cl in defs + cons:
        t = 0
        for l in cl:
            t |= clit(l)
        M &= t
    # tables and supports of the circuit
    uni = list(range(1, n + 1))
    for key, node, ntype in nnf:
        if ntype == "atom" and node.identifier not in var:
            return ("viol", "ddnnf:unknown-variable", "circuit mentions variable %r which is not a CNF variable" % (node.identifier,))
    tn = B.formula_tables(nnf, uni)
    support = {}
    nodes = {key: (ntype, node) for key, node, ntype in nnf}
    for key in sorted(nodes):
        ntype, node = nodes[key]
        if ntype == "atom":
            support[key] = frozenset([node.identifier])
        else:
            s = frozenset()
            for c in node.children:
                if c is not None and c != 0:
                    s |= support[abs(c)]
            support[key] = s
    # reachable part from the root (last node)
    root = len(nnf)
    if root == 0:
        return ("skip", "empty circuit")
    seen, st = set(), [root]
    while st:
        k = st.pop()
        if k in seen:
            continue
        seen.add(k)
        ntype, node = nodes[k]
        if ntype != "atom":
            st.extend(abs(c) for c in node.children if c is not None and c != 0)
    nand = nor = 0
    for k in sorted(seen):
        ntype, node = nodes[k]
        kids = [c for c in node.children if c is not None and c != 0] if ntype != "atom" else []
        if ntype == "conj":
            nand += 1
            tot = 0
            for c in kids:
                tot += len(support[abs(c)])
            if tot != len(support[k]):
                return ("viol", "ddnnf:not-decomposable", "AND node %d has children sharing variables: %s" % (
                    k, [sorted(support[abs(c)]) for c in kids]))
        elif ntype == "disj":
            nor += 1
            for i, c in enumerate(kids):
                for d in kids[i + 1:]:
                    if B.lit(c, tn, FULL) & B.lit(d, tn, FULL):
                        return ("viol", "ddnnf:not-deterministic", "OR node %d has two children that can be true together" % k)
            sups = {support[abs(c)] for c in kids}
            if len(sups) > 1:
                return ("viol", "ddnnf:not-smooth", "OR node %d has children over different variable sets: %s" % (
                    k, [sorted(s) for s in sups]))
    R = tn[root]
    if R != M:
        bad = R ^ M
        asg = (bad & -bad).bit_length() - 1
        return ("viol", "ddnnf:not-equivalent", "circuit and CNF differ under assignment %s: circuit %d, CNF %d" % (
            _show_asg(uni, asg), (R >> asg) & 1, (M >> asg) & 1))
    # labels
    nc, nn = names_of(cnf), names_of(nnf)
    for (name, label), key in nc.items():
        if (name, label) not in nn:
            return ("viol", "ddnnf:missing-label", "label %s (%s) missing in the circuit" % (name, label))
        a = FULL if key == 0 else (0 if key is None else clit(key))
        b = B.lit(nn[(name, label)], tn, FULL)
        if (a ^ b) & M:
            bad = (a ^ b) & M
            asg = (bad & -bad).bit_length() - 1
            return ("viol", "ddnnf:label-differs", "label %s (%s): CNF literal %r has value %d but the circuit node %r has value %d "
                    "in the model %s" % (name, label, key, (a >> asg) & 1, nn[(name, label)], (b >> asg) & 1, _show_asg(uni, asg)))
    # weights and constraints
    wc = dict(cnf.get_weights())
    for key, node, ntype in nnf:
        if ntype == "atom":
            w = wc.get(node.identifier, True)
            if node.probability != w and not (w is True and node.probability is True):
                return ("viol", "ddnnf:weights", "variable %r has weight %r in the CNF and %r in the circuit" % (
                    node.identifier, w, node.probability))
    ident_of = {key: node.identifier for key, node, ntype in nnf if ntype == "atom"}
    c1 = sorted(sorted(sorted(map(abs, cl)) for cl in (list(x) for x in c.as_clauses())) for c in cnf.constraints())
    c2 = sorted(sorted(sorted(ident_of.get(abs(l), ("?", l)) for l in cl) for cl in (list(x) for x in c.as_clauses()))
                for c in nnf.constraints())
    if c1 != c2:
        return ("viol", "ddnnf:constraints", "constraints differ: %s vs %s" % (c1[:3], c2[:3]))
    return ("ok", nand, nor)
