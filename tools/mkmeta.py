#!/venv/bin/python
"""Write /verif/seeded/<id>/meta.json for every seeded change from its notes.md, patch.diff and seeded/results.json."""
import json
import os
import re
import subprocess

ROOT = os.path.dirname(os.path.dirname(os.path.abspath(__file__)))
props = {}
for line in open(os.path.join(ROOT, "properties.jsonl")):
    d = json.loads(line)
    props[d["id"]] = d
results = json.load(open(os.path.join(ROOT, "seeded", "results.json")))
head = subprocess.check_output(["git", "-C", "/repo", "log", "--format=%h", "-1"]).decode().strip()


def sections(text):
    out, cur = {}, None
    for line in text.split("\n"):
        if line.startswith("## "):
            cur = line[3:].strip().lower()
            out[cur] = []
        elif cur is not None:
            out[cur].append(line)
    return {k: "\n".join(v).strip() for k, v in out.items()}


def pick(sec, *keys):
    for k in sec:
        if any(x in k for x in keys):
            return sec[k]
    return ""


for sid in sorted(os.listdir(os.path.join(ROOT, "seeded"))):
    d = os.path.join(ROOT, "seeded", sid)
    pid = sid.rstrip("b")      # second-round changes are stored as <id>b
    if not os.path.isdir(d) or pid not in props:
        continue
    notes = open(os.path.join(d, "notes.md")).read()
    sec = sections(notes)
    patch = open(os.path.join(d, "patch.diff")).read()
    files = sorted(set(re.findall(r"^\+\+\+ b/(\S+)", patch, re.M)))
    runs = []
    for check, r in sorted(results.get(sid, {}).items()):
        runs.append(dict(check=check, command="tools/reseed.sh %s %s  (scratch worktree of /repo + patch.diff, quick tier, VERIF_SEED=0)" % (sid, check)
                         if r.get("via") == "worktree" else "tools/try_seed.sh %s %s %s (git -C /repo apply, quick tier, undone with git checkout)" % (
                             sid, check, r.get("args", "")),
                         exit=r["exit"], caught=r["caught"], first_violation_signature=r.get("first_signature", "")))
    meta = dict(
        seed=sid,
        breaks_property=pid,
        property_title=props[pid]["title"],
        origin="written by a fresh sub-agent that was given only the text of property %s and a scratch git worktree of /repo%s" % (pid, " (second round: asked for a mechanism different from seeded/%s)" % pid if sid != pid else ""),
        files_changed=files,
        change=pick(sec, "change", "what")[:1500] if not pick(sec, "the change") else pick(sec, "the change")[:1500],
        why_it_breaks_the_property=pick(sec, "why")[:2500],
        needs_to_manifest=pick(sec, "needs")[:2500],
        demonstration="demo.py (run with PYTHONPATH=<tree>): exits 1 on a tree with patch.diff applied, 0 on the unchanged tree",
        confirmed_by_me=[("tools/confirm2.sh %s: fresh scratch worktree of /repo HEAD; demo.py exits 0 before and 1 after git apply patch.diff" % pid) if sid != pid else
                         "tools/confirm_seed.sh %s: patch applies to /repo, demo.py fails with it and passes after git apply -R" % sid,
                         "the repository's 273 tests pass with the patch applied (baseline command of /root/.vp/BASELINE.json)"],
        checks_run=runs,
        caught_by=[r["check"] for r in runs if r["caught"]],
        repo_head_when_last_tried=head,
        never_committed_to_repo=True,
    )
    with open(os.path.join(d, "meta.json"), "w") as f:
        json.dump(meta, f, indent=1)
    print(sid, "caught_by", meta["caught_by"])
