#!/bin/bash
# usage: tools/reseed.sh <seed-id> [check-id] -- try a seeded change against a check WITHOUT touching /repo:
# a scratch worktree of /repo's HEAD gets the patch, the check runs with PYTHONPATH/PBMON_REPO pointing at it and
# PBMON_OUT redirecting evidence/replays to the scratch directory; both are removed afterwards.
SEED=$1; CHECK=${2:-${1%b}}
WT=$(mktemp -d /tmp/reseed.$SEED.XXXX)
git -C /repo worktree add -q --detach $WT/wt HEAD || exit 2
if ! git -C $WT/wt apply /verif/seeded/$SEED/patch.diff; then echo "seed=$SEED check=$CHECK PATCH-DOES-NOT-APPLY"; git -C /repo worktree remove --force $WT/wt; rm -rf $WT; exit 2; fi
cd /verif && PYTHONPATH=$WT/wt PBMON_REPO=$WT/wt PBMON_OUT=$WT/out /venv/bin/python -m pbmon.check $CHECK > $WT/log.txt 2>&1
RC=$?
SIG=$(grep -m1 "signature=" $WT/log.txt | sed 's/.*signature=\([^ ]*\).*/\1/')
WHERE=$(cd /verif && PYTHONPATH=$WT/wt /venv/bin/python -W ignore -c "import problog;print(problog.__file__)" 2>/dev/null)
/venv/bin/python - "$SEED" "$CHECK" "$RC" "$SIG" "$WHERE" <<'PY'
import json,sys,os,fcntl
p='/verif/seeded/results.json'
seed,check,rc,sig,where=sys.argv[1:6]
with open(p+'.lock','w') as lk:
    fcntl.flock(lk,fcntl.LOCK_EX)
    d=json.load(open(p)) if os.path.exists(p) else {}
    d.setdefault(seed,{})[check]={"exit":int(rc),"caught":int(rc)==1,"first_signature":sig,"args":"","via":"worktree"}
    json.dump(d,open(p,'w'),indent=1,sort_keys=True)
PY
echo "seed=$SEED check=$CHECK exit=$RC sig=$SIG problog=$WHERE"
git -C /repo worktree remove --force $WT/wt; rm -rf $WT
