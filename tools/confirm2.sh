#!/bin/bash
# usage: tools/confirm2.sh <id>  -- confirm a second-round seeded change delivered in /tmp/r2/<id>.out without touching /repo:
# fresh scratch worktree of /repo HEAD; demo must exit 0 without the patch, 1 with it; the 273 tests must pass with it.
ID=$1; SRC=/tmp/r2/$ID.out
for f in patch.diff demo.py notes.md; do [ -s $SRC/$f ] || { echo "$ID: missing $f"; exit 2; }; done
WT=$(mktemp -d /tmp/confirm2.$ID.XXXX)
git -C /repo worktree add -q --detach $WT/wt HEAD || exit 2
cd $WT/wt
PYTHONPATH=$WT/wt timeout 600 /venv/bin/python -W ignore $SRC/demo.py > $WT/demo_clean.txt 2>&1; RC0=$?
git apply $SRC/patch.diff || { echo "$ID: patch does not apply"; git -C /repo worktree remove --force $WT/wt; rm -rf $WT; exit 2; }
PYTHONPATH=$WT/wt timeout 600 /venv/bin/python -W ignore $SRC/demo.py > $WT/demo_patched.txt 2>&1; RC1=$?
PYTHONHASHSEED=0 PYTHONPATH=$WT/wt /venv/bin/python -m pytest -q -p no:cacheprovider --timeout=900 -n 8 > $WT/tests.txt 2>&1; RCT=$?
TESTS=$(tail -1 $WT/tests.txt)
echo "$ID: demo clean=$RC0 patched=$RC1 tests_rc=$RCT [$TESTS]"
if [ $RC0 -eq 0 ] && [ $RC1 -eq 1 ] && [ $RCT -eq 0 ]; then
  mkdir -p /verif/seeded/${ID}b && cp $SRC/patch.diff $SRC/demo.py $SRC/notes.md /verif/seeded/${ID}b/ && echo "$ID: CONFIRMED -> seeded/${ID}b"
else
  echo "$ID: NOT CONFIRMED"; tail -5 $WT/demo_patched.txt; tail -3 $WT/tests.txt
fi
cd /; git -C /repo worktree remove --force $WT/wt; rm -rf $WT
