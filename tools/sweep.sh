#!/bin/bash
# usage: tools/sweep.sh "<seeds>" [tier] [checks...]  -- run checks for several seeds, print one line per run
SEEDS=${1:-"0 1 2"}; TIER=${2:-quick}; shift; shift
CHECKS=${@:-$(/venv/bin/python -c "import json;print(' '.join(c['property_id'] for c in json.load(open('MANIFEST.json'))['checks']))")}
mkdir -p out/sweep
for s in $SEEDS; do for c in $CHECKS; do
  VERIF_SEED=$s /venv/bin/python -m pbmon.check $c --tier $TIER > out/sweep/$c.$TIER.$s.log 2>&1; rc=$?
  echo "seed=$s check=$c tier=$TIER exit=$rc $(grep -m1 '^C[0-9]* tier' out/sweep/$c.$TIER.$s.log | sed 's/.*wall=/wall=/' | cut -c1-60) $(grep -c '^VIOLATION' out/sweep/$c.$TIER.$s.log) violations"
  if [ $rc -ne 0 ]; then grep "signature=\|INCONCLUSIVE" out/sweep/$c.$TIER.$s.log | cut -c1-300 | head -5; fi
done; done
