#!/bin/bash
# usage: tools/confirm_seed.sh <ID> [outdir-suffix]   -- confirm a sub-agent's seeded change in its scratch worktree
ID=$1; SUF=${2:-}
WT=/tmp/wt/$ID$SUF; OUT=/tmp/seeded_out/$ID$SUF
export PYTHONHASHSEED=0
cd $WT || exit 2
git diff > /tmp/confirm_$ID$SUF.diff
if ! diff -q <(git diff) $OUT/patch.diff >/dev/null; then echo "NOTE: patch.diff differs from worktree diff; using worktree diff"; cp /tmp/confirm_$ID$SUF.diff $OUT/patch.diff; fi
( cd /tmp && PYTHONPATH=$WT timeout 600 /venv/bin/python $OUT/demo.py >/tmp/confirm_$ID$SUF.with.txt 2>&1 ); W=$?
TESTS=$(PYTHONPATH=$WT timeout 1800 /venv/bin/python -m pytest -q -p no:cacheprovider --timeout=900 -n 8 2>&1 | tail -1)
git apply -R /tmp/confirm_$ID$SUF.diff
( cd /tmp && PYTHONPATH=$WT timeout 600 /venv/bin/python $OUT/demo.py >/tmp/confirm_$ID$SUF.without.txt 2>&1 ); WO=$?
git apply /tmp/confirm_$ID$SUF.diff
rm -f resulttable
echo "ID=$ID$SUF demo_with_change_exit=$W demo_without_exit=$WO tests: $TESTS"
if [ $W -ne 0 ] && [ $WO -eq 0 ] && echo "$TESTS" | grep -q "273 passed" && ! echo "$TESTS" | grep -q failed; then
  mkdir -p /verif/seeded/$ID$SUF
  cp $OUT/patch.diff $OUT/demo.py /verif/seeded/$ID$SUF/
  [ -f $OUT/notes.md ] && cp $OUT/notes.md /verif/seeded/$ID$SUF/
  echo CONFIRMED
else
  echo NOT-CONFIRMED
fi
