"""Regenerate MANIFEST.json from the check modules' metadata (run from /verif)."""
import importlib, json, os, sys, glob
sys.path.insert(0, os.path.dirname(os.path.dirname(os.path.abspath(__file__))))
root = os.path.dirname(os.path.dirname(os.path.abspath(__file__)))
props = [json.loads(l) for l in open(os.path.join(root, "properties.jsonl"))]
NA = {}
na_path = os.path.join(root, "tools", "not_applicable.json")
if os.path.exists(na_path):
    NA = json.load(open(na_path))
checks = []
missing = []
for p in props:
    pid = p["id"]
    path = os.path.join(root, "pbmon", "checks", pid.lower() + ".py")
    if not os.path.exists(path) or pid in NA:
        missing.append(pid)
        continue
    m = importlib.import_module("pbmon.checks." + pid.lower())
    py = "/venv/bin/python -m pbmon.check %s" % pid
    checks.append({
        "property_id": pid,
        "quick_cmd": "VERIF_TIER=quick %s --tier quick" % py,
        "thorough_cmd": "VERIF_TIER=thorough %s --tier thorough" % py,
        "evidence_file": "evidence/%s.json" % pid,
        "replay_cmd_template": py + " --replay {path}",
        "engine": "pbmon",
        "level_claimed": {"category": m.LEVEL, "text": m.LEVEL_TEXT, "design_ref": "DESIGN.md section 5, %s" % pid},
        "level_note": m.LEVEL_NOTE,
        "technique": m.TECHNIQUE,
    })
man = {
    "version": 1,
    "setup_cmd": "/venv/bin/python -m pbmon.setup",
    "hooks": {
        "guard": "ML_KULEUVEN_PROBLOG_VERIF",
        "enable": "No hook commits in /repo: all instrumentation is installed at run time by /verif/pbmon (wrappers, subclassed message queue, icontract contracts, sys.monitoring counters) inside worker processes that set ML_KULEUVEN_PROBLOG_VERIF=1; problog is imported from /repo's working tree (editable install), so nothing is built.",
        "baseline_off_cmd": "cd /repo && /venv/bin/python -m pytest -ra -q -p no:cacheprovider --timeout=900 --continue-on-collection-errors",
        "source_commits": [],
        "add_only": True,
    },
    "engines": [{"name": "pbmon", "path": "pbmon/", "serves_properties": [c["property_id"] for c in checks],
                 "kind_free_text": "runtime monitoring framework: sharded hostile workloads on the real code, harness-side instrumentation, reference-model / invariant / history oracles, three-valued verdicts"}],
    "checks": checks,
    "not_applicable": [{"property_id": pid, "reason": NA.get(pid, "check not built yet (work in progress); see DESIGN.md section 5 for the planned monitor")} for pid in missing],
    "notes": "See DESIGN.md. Exit codes: 0 held on everything explored, 1 VIOLATION, 3 INCONCLUSIVE (deciding monitor not reached / coverage floor missed). known_findings.json lists recorded and fixed defects.",
}
json.dump(man, open(os.path.join(root, "MANIFEST.json"), "w"), indent=1)
print("checks:", len(checks), "not_applicable:", len(missing))
