#!/venv/bin/python
"""Regenerate the tables of DESIGN.md section 12 (between the GENERATED markers) from the check modules, known_findings.json,
seeded/results.json and the evidence files.  Hand-written text outside the markers is left alone."""
import importlib
import json
import os
import sys

ROOT = os.path.dirname(os.path.dirname(os.path.abspath(__file__)))
sys.path.insert(0, ROOT)
BEGIN, END = "<!-- GENERATED:BEGIN -->", "<!-- GENERATED:END -->"

props = [json.loads(l) for l in open(os.path.join(ROOT, "properties.jsonl"))]
kf = json.load(open(os.path.join(ROOT, "known_findings.json")))["findings"]
res = json.load(open(os.path.join(ROOT, "seeded", "results.json")))

out = []
out.append("### 12.1 Checks, and the seeded change each one catches\n")
out.append("Seeded changes live in `seeded/<id>/` (patch.diff, demo.py, notes.md, meta.json). Every one passes the repository's 273 tests.")
out.append("`caught by` lists every check that was run against the change and exited 1 with a VIOLATION line; the signature is the first one printed.\n")
out.append("| id | check | technique (deciding method) | quick / thorough cases | seeded change caught by (signature) |")
out.append("|---|---|---|---|---|")
for p in props:
    pid = p["id"]
    try:
        mod = importlib.import_module("pbmon.checks." + pid.lower())
    except Exception as e:  # noqa
        out.append("| %s | - | (no check: %s) | | |" % (pid, e))
        continue
    cells = []
    for sid in (pid, pid + "b"):
        if sid not in res and sid != pid:
            continue
        caught = []
        missed = []
        for check, r in sorted(res.get(sid, {}).items()):
            (caught if r["caught"] else missed).append("%s (`%s`)" % (check, r.get("first_signature", "")[:70]))
        cell = "seeded/%s: " % sid + ("; ".join(caught) if caught else "NOT CAUGHT")
        if missed:
            cell += " — not caught by: " + "; ".join(missed)
        cells.append(cell)
    cell = "<br>".join(cells)
    out.append("| %s | `pbmon/checks/%s.py` | %s | %d / %d | %s |" % (pid, pid.lower(), mod.TECHNIQUE, mod.BUDGET["quick"], mod.BUDGET["thorough"], cell))
out.append("")
out.append("### 12.2 Genuine defects repaired in /repo (`fix:` commits; every one found by a monitor on the unchanged tree)\n")
out.append("| commit | property | what failed |")
out.append("|---|---|---|")
for f in kf:
    if f["status"] == "fixed":
        ps = ",".join(f.get("properties") or [f.get("property")])
        d = f["description"]
        d = d.split(f.get("commit", "\0"), 1)[-1].strip() if f.get("commit") and f.get("commit") in d else d
        out.append("| %s | %s | %s |" % (f.get("commit"), ps, d.replace("|", "\\|").replace("\n", " ")[:400]))
out.append("")
out.append("### 12.3 Genuine defects recorded as known findings (not repaired: not small, not safe, or contradicted by a stored test expectation)\n")
out.append("| finding | properties | mechanism (input class that keys it) |")
out.append("|---|---|---|")
seen = {}
for f in kf:
    if f["status"] == "known":
        ps = f.get("properties") or [f.get("property")]
        k = f.get("id")
        if k in seen:
            seen[k][0].extend(ps)
        else:
            seen[k] = [list(ps), f["description"]]
for k, (ps, d) in seen.items():
    out.append("| %s | %s | %s |" % (k, ",".join(sorted(set(ps))), d.replace("|", "\\|").replace("\n", " ")[:600]))
out.append("")
out.append("### 12.4 What the last runs observed (from `evidence/<id>.json`)\n")
out.append("| id | tier | seed | evaluations | distinct non-trivial | unlisted violations | verdict | wall s |")
out.append("|---|---|---|---|---|---|---|---|")
for p in props:
    path = os.path.join(ROOT, "evidence", p["id"] + ".json")
    if not os.path.exists(path):
        continue
    e = json.load(open(path))
    c = e.get("coverage", {})
    out.append("| %s | %s | %s | %s | %s | %s | %s | %s |" % (p["id"], e.get("tier"), e.get("seed"), c.get("evaluations"), c.get("distinct_nontrivial"),
                                                   e.get("violations"), e.get("verdict"), e.get("wall_s")))
text = open(os.path.join(ROOT, "DESIGN.md")).read()
if BEGIN not in text:
    sys.exit("markers missing in DESIGN.md")
i, j = text.index(BEGIN), text.index(END)
text = text[:i + len(BEGIN)] + "\n" + "\n".join(out) + "\n" + text[j:]
open(os.path.join(ROOT, "DESIGN.md"), "w").write(text)
print("DESIGN.md section 12 regenerated: %d lines" % len(out))
