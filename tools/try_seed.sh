#!/bin/bash
# usage: tools/try_seed.sh <seed-id> <check-id> [extra args]  -- apply a seeded change to /repo, run a check, undo, record the result
SEED=$1; CHECK=$2; shift; shift
cd /repo && { git diff --quiet || { echo "REFUSING: /repo has uncommitted changes"; exit 3; }; } && git apply /verif/seeded/$SEED/patch.diff || { echo "patch failed"; exit 2; }
cd /verif && /venv/bin/python -m pbmon.check $CHECK "$@" > /tmp/try_seed.$SEED.$CHECK.txt 2>&1
RC=$?
git -C /repo checkout -- . ; rm -f /repo/resulttable
grep -v "^monitors\|^KNOWN" /tmp/try_seed.$SEED.$CHECK.txt | cut -c1-400 | head -${LINES_MAX:-6}
SIG=$(grep -m1 "signature=" /tmp/try_seed.$SEED.$CHECK.txt | sed 's/.*signature=\([^ ]*\).*/\1/')
/venv/bin/python - "$SEED" "$CHECK" "$RC" "$SIG" "$*" <<'PY'
import json,sys,os
p='/verif/seeded/results.json'
d=json.load(open(p)) if os.path.exists(p) else {}
seed,check,rc,sig,args=sys.argv[1:6]
d.setdefault(seed,{})[check]={"exit":int(rc),"caught":int(rc)==1,"first_signature":sig,"args":args}
json.dump(d,open(p,'w'),indent=1,sort_keys=True)
PY
echo "seed=$SEED check=$CHECK exit=$RC"
