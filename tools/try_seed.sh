#!/bin/bash
# usage: tools/try_seed.sh <seed-id> <check-id> [extra args]  -- apply a seeded change to /repo, run a check, undo
SEED=$1; CHECK=$2; shift; shift
cd /repo && git apply /verif/seeded/$SEED/patch.diff || { echo "patch failed"; exit 2; }
cd /verif && /venv/bin/python -m pbmon.check $CHECK "$@" 2>&1 | grep -v "^monitors\|^KNOWN" | cut -c1-400 | head -${LINES_MAX:-12}
RC=${PIPESTATUS[0]}
git -C /repo checkout -- . ; rm -f /repo/resulttable
echo "seed=$SEED check=$CHECK exit=$RC"
